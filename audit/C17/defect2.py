"""C17 defect 2: the intersection with a regular language ignores the start
variable of the grammar and always derives from the literal "S"."""
import sys
from pyformlang.indexed_grammar import Rules, IndexedGrammar
from pyformlang.regular_expression import Regex

# ---- independent brute-force oracle (bounded leftmost derivations) -----------
# rules: ('end',A,a) ('prod',A,B,f) ('cons',f,A,B) ('dup',A,B,C); 'epsilon' = empty word
def derivable_words(rules, start, max_len=4, max_stack=4, max_forms=200000):
    """All terminal words (tuples) of length <= max_len derivable from start[]
    using index stacks of height <= max_stack."""
    words, seen = set(), set()
    todo = [((('n', start, ()),))]
    while todo and len(seen) < max_forms:
        form = todo.pop()
        if form in seen:
            continue
        seen.add(form)
        pos = next((i for i, it in enumerate(form) if it[0] == 'n'), None)
        if pos is None:
            words.add(tuple(it[1] for it in form))
            continue
        _, nt, st = form[pos]
        for r in rules:
            new = None
            if r[0] == 'end' and r[1] == nt:
                new = () if r[2] == 'epsilon' else (('t', r[2]),)
            elif r[0] == 'dup' and r[1] == nt:
                new = (('n', r[2], st), ('n', r[3], st))
            elif r[0] == 'prod' and r[1] == nt and len(st) < max_stack:
                new = (('n', r[2], (r[3],) + st),)
            elif r[0] == 'cons' and r[2] == nt and st and st[0] == r[1]:
                new = (('n', r[3], st[1:]),)
            if new is not None:
                nf = form[:pos] + new + form[pos + 1:]
                if len(nf) <= max_len + 1 and \
                        sum(1 for it in nf if it[0] == 't') <= max_len:
                    todo.append(nf)
    return {w for w in words if len(w) <= max_len}


def to_lib(r):
    from pyformlang.indexed_grammar import EndRule, ProductionRule, \
        ConsumptionRule, DuplicationRule
    if r[0] == 'end':
        return EndRule(r[1], r[2])
    if r[0] == 'prod':
        return ProductionRule(r[1], r[2], r[3])
    if r[0] == 'cons':
        return ConsumptionRule(r[1], r[2], r[3])
    return DuplicationRule(r[1], r[2], r[3])
# -----------------------------------------------------------------------------
failures = []
CASES = [
    # L = {b}, start X; regex b  -> intersection is {b}
    ("start X, L={b}, regex b",
     [('prod', 'X', 'A', 'f'), ('cons', 'f', 'A', 'B'), ('end', 'B', 'b')],
     'X', "b", lambda w: w == ('b',)),
    # start X derives only b; the non-start variable S derives a.
    # regex a -> intersection must be empty
    ("start X, L={b}, S->a is not the start, regex a",
     [('end', 'X', 'b'), ('end', 'S', 'a'), ('dup', 'X', 'X', 'X')],
     'X', "a", lambda w: w == ('a',)),
    # control with start S
    ("control start S, L={b}, regex b",
     [('prod', 'S', 'A', 'f'), ('cons', 'f', 'A', 'B'), ('end', 'B', 'b')],
     'S', "b", lambda w: w == ('b',)),
]
for name, rules, start, regex, accepts in CASES:
    words = derivable_words(rules, start, max_len=3)
    expected_empty = not any(accepts(w) for w in words)
    grammar = IndexedGrammar(Rules([to_lib(r) for r in rules]),
                             start_variable=start)
    got = grammar.intersection(Regex(regex)).is_empty()
    if got != expected_empty:
        failures.append("%s: oracle says intersection empty=%s, library says %s"
                        % (name, expected_empty, got))
for failure in failures:
    print(failure)
if failures:
    print("DEFECT: intersection ignores IndexedGrammar.start_variable")
    sys.exit(1)
print("ok")
