"""C17 defect 1: remove_useless_rules() forgets the start variable, so the
emptiness verdict changes for any grammar whose start variable is not "S"."""
import sys
from pyformlang.indexed_grammar import Rules, IndexedGrammar

# ---- independent brute-force oracle (bounded leftmost derivations) -----------
# rules: ('end',A,a) ('prod',A,B,f) ('cons',f,A,B) ('dup',A,B,C); 'epsilon' = empty word
def derivable_words(rules, start, max_len=4, max_stack=4, max_forms=200000):
    """All terminal words (tuples) of length <= max_len derivable from start[]
    using index stacks of height <= max_stack."""
    words, seen = set(), set()
    todo = [((('n', start, ()),))]
    while todo and len(seen) < max_forms:
        form = todo.pop()
        if form in seen:
            continue
        seen.add(form)
        pos = next((i for i, it in enumerate(form) if it[0] == 'n'), None)
        if pos is None:
            words.add(tuple(it[1] for it in form))
            continue
        _, nt, st = form[pos]
        for r in rules:
            new = None
            if r[0] == 'end' and r[1] == nt:
                new = () if r[2] == 'epsilon' else (('t', r[2]),)
            elif r[0] == 'dup' and r[1] == nt:
                new = (('n', r[2], st), ('n', r[3], st))
            elif r[0] == 'prod' and r[1] == nt and len(st) < max_stack:
                new = (('n', r[2], (r[3],) + st),)
            elif r[0] == 'cons' and r[2] == nt and st and st[0] == r[1]:
                new = (('n', r[3], st[1:]),)
            if new is not None:
                nf = form[:pos] + new + form[pos + 1:]
                if len(nf) <= max_len + 1 and \
                        sum(1 for it in nf if it[0] == 't') <= max_len:
                    todo.append(nf)
    return {w for w in words if len(w) <= max_len}


def to_lib(r):
    from pyformlang.indexed_grammar import EndRule, ProductionRule, \
        ConsumptionRule, DuplicationRule
    if r[0] == 'end':
        return EndRule(r[1], r[2])
    if r[0] == 'prod':
        return ProductionRule(r[1], r[2], r[3])
    if r[0] == 'cons':
        return ConsumptionRule(r[1], r[2], r[3])
    return DuplicationRule(r[1], r[2], r[3])
# -----------------------------------------------------------------------------
failures = []
CASES = [
    # X[] -> A[f] -> B[] -> b      : language {b}
    ("push/pop, start X",
     [('prod', 'X', 'A', 'f'), ('cons', 'f', 'A', 'B'), ('end', 'B', 'b')],
     'X'),
    # a single end rule
    ("one end rule, start X", [('end', 'X', 'a')], 'X'),
    # integer start variable
    ("integer start 0",
     [('dup', 0, 1, 1), ('end', 1, 'a')], 0),
    # control: the same with start S
    ("control, start S",
     [('prod', 'S', 'A', 'f'), ('cons', 'f', 'A', 'B'), ('end', 'B', 'b')],
     'S'),
]
for name, rules, start in CASES:
    expected_empty = not derivable_words(rules, start)
    for optim in range(9):
        grammar = IndexedGrammar(Rules([to_lib(r) for r in rules], optim),
                                 start_variable=start)
        before = grammar.is_empty()
        after = grammar.remove_useless_rules().is_empty()
        if before != expected_empty or after != expected_empty:
            failures.append(
                "%s, optim=%d: oracle says empty=%s, is_empty()=%s, "
                "remove_useless_rules().is_empty()=%s"
                % (name, optim, expected_empty, before, after))
            break
for failure in failures:
    print(failure)
if failures:
    print("DEFECT: remove_useless_rules() changes the emptiness verdict "
          "(start variable is dropped)")
    sys.exit(1)
print("ok")
