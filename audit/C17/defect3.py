"""C17 defect 3: in the intersection grammar a terminal x and a non-terminal x
get the same name str((p, x, q)), so a non-terminal that derives nothing becomes
productive as soon as the regular language uses a letter with the same text
(or as soon as the non-terminal is called "epsilon")."""
import sys
from pyformlang.indexed_grammar import Rules, IndexedGrammar
from pyformlang.regular_expression import Regex
from pyformlang.finite_automaton import EpsilonNFA, State, Symbol

# ---- independent brute-force oracle (bounded leftmost derivations) -----------
# rules: ('end',A,a) ('prod',A,B,f) ('cons',f,A,B) ('dup',A,B,C); 'epsilon' = empty word
def derivable_words(rules, start, max_len=4, max_stack=4, max_forms=200000):
    """All terminal words (tuples) of length <= max_len derivable from start[]
    using index stacks of height <= max_stack."""
    words, seen = set(), set()
    todo = [((('n', start, ()),))]
    while todo and len(seen) < max_forms:
        form = todo.pop()
        if form in seen:
            continue
        seen.add(form)
        pos = next((i for i, it in enumerate(form) if it[0] == 'n'), None)
        if pos is None:
            words.add(tuple(it[1] for it in form))
            continue
        _, nt, st = form[pos]
        for r in rules:
            new = None
            if r[0] == 'end' and r[1] == nt:
                new = () if r[2] == 'epsilon' else (('t', r[2]),)
            elif r[0] == 'dup' and r[1] == nt:
                new = (('n', r[2], st), ('n', r[3], st))
            elif r[0] == 'prod' and r[1] == nt and len(st) < max_stack:
                new = (('n', r[2], (r[3],) + st),)
            elif r[0] == 'cons' and r[2] == nt and st and st[0] == r[1]:
                new = (('n', r[3], st[1:]),)
            if new is not None:
                nf = form[:pos] + new + form[pos + 1:]
                if len(nf) <= max_len + 1 and \
                        sum(1 for it in nf if it[0] == 't') <= max_len:
                    todo.append(nf)
    return {w for w in words if len(w) <= max_len}


def to_lib(r):
    from pyformlang.indexed_grammar import EndRule, ProductionRule, \
        ConsumptionRule, DuplicationRule
    if r[0] == 'end':
        return EndRule(r[1], r[2])
    if r[0] == 'prod':
        return ProductionRule(r[1], r[2], r[3])
    if r[0] == 'cons':
        return ConsumptionRule(r[1], r[2], r[3])
    return DuplicationRule(r[1], r[2], r[3])
# -----------------------------------------------------------------------------
failures = []


def nfa_word(word):
    """An automaton accepting exactly the given word"""
    enfa = EpsilonNFA()
    enfa.add_start_state(State(0))
    enfa.add_final_state(State(len(word)))
    for i, letter in enumerate(word):
        enfa.add_transition(State(i), Symbol(letter), State(i + 1))
    return enfa


CASES = [
    # S -> A B, B -> b, A has no rule at all: L(G) is empty.
    ("A unproductive, regex 'A b'",
     [('dup', 'S', 'A', 'B'), ('end', 'B', 'b')],
     Regex("A b"), lambda w: w == ('A', 'b')),
    ("A unproductive, automaton for the word A b",
     [('dup', 'S', 'A', 'B'), ('end', 'B', 'b')],
     nfa_word(['A', 'b']), lambda w: w == ('A', 'b')),
    # A can only pop g but only f is ever pushed: L(G) is empty
    ("A pops the wrong index, regex 'A'",
     [('prod', 'S', 'A', 'f'), ('cons', 'g', 'A', 'B'), ('end', 'B', 'b')],
     Regex("A"), lambda w: w == ('A',)),
    # a non-terminal called epsilon, without rules: L(G) is empty
    ("non-terminal named epsilon, regex 'b'",
     [('dup', 'S', 'epsilon', 'B'), ('end', 'B', 'b')],
     Regex("b"), lambda w: w == ('b',)),
    # control: same shapes with a fresh name
    ("control: N unproductive, regex 'A b'",
     [('dup', 'S', 'N', 'B'), ('end', 'B', 'b')],
     Regex("A b"), lambda w: w == ('A', 'b')),
]
for name, rules, other, accepts in CASES:
    words = derivable_words(rules, 'S', max_len=3)
    expected_empty = not any(accepts(w) for w in words)
    for optim in (0, 7):
        grammar = IndexedGrammar(Rules([to_lib(r) for r in rules], optim))
        alone = grammar.is_empty()
        got = grammar.intersection(other).is_empty()
        if got != expected_empty:
            failures.append(
                "%s (optim %d): derivable words %s, is_empty()=%s, oracle says "
                "intersection empty=%s, library says %s"
                % (name, optim, sorted(words), alone, expected_empty, got))
for failure in failures:
    print(failure)
if failures:
    print("DEFECT: the intersection with a regular language is non-empty "
          "although the grammar derives no accepted word")
    sys.exit(1)
print("ok")
