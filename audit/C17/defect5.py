"""C17 defect 5: a rule list that contains the same consumption rule twice
cannot be turned into Rules at all: ConsumptionRule.__eq__ calls the property
f_parameter as if it were a method and raises TypeError. Every other kind of
rule may be repeated (Rules removes duplicates)."""
import sys
from pyformlang.indexed_grammar import Rules, IndexedGrammar

# ---- independent brute-force oracle (bounded leftmost derivations) -----------
# rules: ('end',A,a) ('prod',A,B,f) ('cons',f,A,B) ('dup',A,B,C); 'epsilon' = empty word
def derivable_words(rules, start, max_len=4, max_stack=4, max_forms=200000):
    """All terminal words (tuples) of length <= max_len derivable from start[]
    using index stacks of height <= max_stack."""
    words, seen = set(), set()
    todo = [((('n', start, ()),))]
    while todo and len(seen) < max_forms:
        form = todo.pop()
        if form in seen:
            continue
        seen.add(form)
        pos = next((i for i, it in enumerate(form) if it[0] == 'n'), None)
        if pos is None:
            words.add(tuple(it[1] for it in form))
            continue
        _, nt, st = form[pos]
        for r in rules:
            new = None
            if r[0] == 'end' and r[1] == nt:
                new = () if r[2] == 'epsilon' else (('t', r[2]),)
            elif r[0] == 'dup' and r[1] == nt:
                new = (('n', r[2], st), ('n', r[3], st))
            elif r[0] == 'prod' and r[1] == nt and len(st) < max_stack:
                new = (('n', r[2], (r[3],) + st),)
            elif r[0] == 'cons' and r[2] == nt and st and st[0] == r[1]:
                new = (('n', r[3], st[1:]),)
            if new is not None:
                nf = form[:pos] + new + form[pos + 1:]
                if len(nf) <= max_len + 1 and \
                        sum(1 for it in nf if it[0] == 't') <= max_len:
                    todo.append(nf)
    return {w for w in words if len(w) <= max_len}


def to_lib(r):
    from pyformlang.indexed_grammar import EndRule, ProductionRule, \
        ConsumptionRule, DuplicationRule
    if r[0] == 'end':
        return EndRule(r[1], r[2])
    if r[0] == 'prod':
        return ProductionRule(r[1], r[2], r[3])
    if r[0] == 'cons':
        return ConsumptionRule(r[1], r[2], r[3])
    return DuplicationRule(r[1], r[2], r[3])
# -----------------------------------------------------------------------------
failures = []
BASE = [('prod', 'S', 'A', 'f'), ('cons', 'f', 'A', 'B'), ('end', 'B', 'b'),
        ('dup', 'A', 'A', 'A')]
for i, repeated in enumerate(BASE):
    rules = BASE + [repeated]
    expected_empty = not derivable_words(rules, 'S', max_len=2)
    for optim in range(9):
        try:
            grammar = IndexedGrammar(Rules([to_lib(r) for r in rules], optim))
            got = grammar.is_empty()
            got2 = grammar.remove_useless_rules().is_empty()
        except Exception as exc:  # pylint: disable=broad-except
            got = got2 = "%s: %s" % (type(exc).__name__, exc)
        if got != expected_empty or got2 != expected_empty:
            failures.append("rule %s listed twice, optim %d: oracle says "
                            "empty=%s, library: %s / %s"
                            % (repeated, optim, expected_empty, got, got2))
            break
for failure in failures:
    print(failure)
if failures:
    print("DEFECT: a repeated consumption rule makes Rules(...) raise")
    sys.exit(1)
print("ok")
