"""C05 defect 3: str() of a regex that contains an empty operand (the empty
language, as produced by Regex(""), "()", "a|", "a()" ...) prints that operand as
the word  Empty , which parses back as the ordinary SYMBOL 'Empty'.
So str(regex) does not parse back to an equivalent regex.

Run: PYTHONPATH=<checkout> /venv/bin/python defect3.py
"""
import itertools
import sys

from pyformlang.regular_expression import Regex, MisformedRegexError

ALPHABET = ["a", "Empty"]


def words(max_len=3):
    for length in range(max_len + 1):
        for word in itertools.product(ALPHABET, repeat=length):
            yield list(word)


# Oracle: tiny AST evaluator; ("empty",) is the empty language.
def ends(node, word, i):
    kind = node[0]
    if kind == "empty":
        return set()
    if kind == "sym":
        return {i + 1} if i < len(word) and word[i] == node[1] else set()
    if kind == "union":
        return ends(node[1], word, i) | ends(node[2], word, i)
    if kind == "concat":
        return {k for j in ends(node[1], word, i) for k in ends(node[2], word, j)}
    if kind == "star":
        res, todo = {i}, [i]
        while todo:
            for k in ends(node[1], word, todo.pop()):
                if k not in res:
                    res.add(k)
                    todo.append(k)
        return res
    raise AssertionError(kind)


def in_lang(node, word):
    return len(word) in ends(node, word, 0)


A = ("sym", "a")
EMPTY = ("empty",)


def build_cases():
    cases = []
    # (description, thunk building the regex, oracle AST)
    cases.append(('Regex("")', lambda: Regex(""), EMPTY))
    cases.append(('Regex("a|")', lambda: Regex("a|"), ("union", A, EMPTY)))
    cases.append(('Regex("(a|)*")', lambda: Regex("(a|)*"),
                  ("star", ("union", A, EMPTY))))
    cases.append(('Regex("a").union(Regex(""))',
                  lambda: Regex("a").union(Regex("")), ("union", A, EMPTY)))
    cases.append(('Regex("").kleene_star()',
                  lambda: Regex("").kleene_star(), ("star", EMPTY)))
    cases.append(('Regex("a").concatenate(Regex("").kleene_star())',
                  lambda: Regex("a").concatenate(Regex("").kleene_star()),
                  ("concat", A, ("star", EMPTY))))
    return cases


problems = []
checked = 0
for description, thunk, ast in build_cases():
    try:
        regex = thunk()
    except MisformedRegexError:
        # a repair may decide to refuse a missing operand: not this defect
        continue
    checked += 1
    bad = [w for w in words() if regex.accepts(w) != in_lang(ast, w)]
    if bad:
        problems.append("%s: accepts() differs from the oracle on %r"
                        % (description, bad[0]))
        continue
    printed = str(regex)
    try:
        back = Regex(printed)
    except Exception as exc:  # pylint: disable=broad-except
        problems.append("%s: str() = %r does not parse back (%s: %s)"
                        % (description, printed, type(exc).__name__, exc))
        continue
    bad = [w for w in words() if back.accepts(w) != in_lang(ast, w)]
    if bad:
        problems.append(
            "%s: str() = %r parses back to a different language: word %r is %s "
            "by the original and %s by Regex(str(original))"
            % (description, printed, bad[0],
               "accepted" if in_lang(ast, bad[0]) else "rejected",
               "accepted" if back.accepts(bad[0]) else "rejected"))

if problems:
    print("DEFECT: the empty operand is printed as the symbol 'Empty'")
    for problem in problems:
        print(" -", problem)
    sys.exit(1)
print("ok (%d cases)" % checked)
sys.exit(0)
