"""C05 defect 2: str() of a regex whose symbol is an escaped space (the space is
the concatenation operator; Regex("\\ ") is the documented and unit-tested way
to get the symbol ' ') prints the space WITHOUT its backslash.  The printed text
therefore parses back to another language, or is refused with
MisformedRegexError.  The reader itself handles "\\ " correctly: accepts(),
to_epsilon_nfa() and to_cfg() agree with the oracle; only str() is wrong.

Run: PYTHONPATH=<checkout> /venv/bin/python defect2.py
"""
import itertools
import sys

from pyformlang.regular_expression import Regex

SPACE = ("sym", " ")
A = ("sym", "a")
B = ("sym", "b")
EPS = ("eps",)
# (text, oracle AST of the documented meaning)
CASES = [
    ("\\ ", SPACE),
    ("a|\\ ", ("union", A, SPACE)),
    ("a \\  b", ("concat", A, ("concat", SPACE, B))),
    ("(\\ )*", ("star", SPACE)),
    ("\\  epsilon", ("concat", SPACE, EPS)),
    ("(a|\\ ) b", ("concat", ("union", A, SPACE), B)),
]
ALPHABET = ["a", "b", " "]


def ends(node, word, i):
    kind = node[0]
    if kind == "eps":
        return {i}
    if kind == "sym":
        return {i + 1} if i < len(word) and word[i] == node[1] else set()
    if kind == "union":
        return ends(node[1], word, i) | ends(node[2], word, i)
    if kind == "concat":
        return {k for j in ends(node[1], word, i) for k in ends(node[2], word, j)}
    if kind == "star":
        res, todo = {i}, [i]
        while todo:
            for k in ends(node[1], word, todo.pop()):
                if k not in res:
                    res.add(k)
                    todo.append(k)
        return res
    raise AssertionError(kind)


def words(max_len=3):
    for length in range(max_len + 1):
        for word in itertools.product(ALPHABET, repeat=length):
            yield list(word)


problems = []
for text, ast in CASES:
    regex = Regex(text)
    expected = [w for w in words() if len(w) in ends(ast, w, 0)]
    for name, view in [("accepts", regex.accepts),
                       ("to_epsilon_nfa", regex.to_epsilon_nfa().accepts),
                       ("to_cfg", regex.to_cfg().contains)]:
        got = [w for w in words() if view(w)]
        if got != expected:
            problems.append("Regex(%r).%s: language %r, expected %r"
                            % (text, name, got[:4], expected[:4]))
    printed = str(regex)
    try:
        back = Regex(printed)
    except Exception as exc:  # pylint: disable=broad-except
        problems.append("str(Regex(%r)) = %r does not parse back: %s: %s"
                        % (text, printed, type(exc).__name__, exc))
        continue
    got = [w for w in words() if back.accepts(w)]
    if got != expected:
        problems.append(
            "str(Regex(%r)) = %r parses back to another language: it accepts %r..., "
            "the original accepts %r..." % (text, printed, got[:3], expected[:3]))

# Same root cause, outside the strict domain (an escaped backslash), informational
try:
    printed = str(Regex("\\\\"))
    if not Regex(printed).accepts(["\\"]):
        print("note: str(Regex('\\\\\\\\')) = %r parses back to a regex that "
              "rejects the word ['\\\\']" % printed)
except Exception as exc:  # pylint: disable=broad-except
    print("note: escaped backslash does not survive str():", exc)

if problems:
    print("DEFECT: str() does not escape a space that is part of a symbol")
    for problem in problems:
        print(" -", problem)
    sys.exit(1)
print("ok")
sys.exit(0)
