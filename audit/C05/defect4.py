"""C05 defect 4: a well-formed regex with a few hundred operands (a plain word
list  w0|w1|...|w249 , or a sentence of 250 symbols) cannot be built: the reader
recurses once per operand (several Python frames each) and dies with
RecursionError at about 170 operands under the default recursion limit
(well-formed text must be accepted; the only documented failure is
MisformedRegexError, for ill-formed text).

Run: PYTHONPATH=<checkout> /venv/bin/python defect4.py
"""
import sys

from pyformlang.regular_expression import Regex, MisformedRegexError

N = 250
WORDS = ["w%d" % i for i in range(N)]
problems = []


def attempt(description, thunk):
    try:
        return thunk()
    except MisformedRegexError as exc:
        problems.append("%s: well-formed text refused: %s"
                        % (description, str(exc)[:80]))
    except RecursionError:
        problems.append("%s: RecursionError (recursion limit %d)"
                        % (description, sys.getrecursionlimit()))
    return None


# 1. union of 250 symbols: the language is exactly the 250 one-symbol words
regex = attempt("Regex('w0|w1|...|w249')", lambda: Regex("|".join(WORDS)))
if regex is not None:
    def check_union():
        for word, expected in [(["w0"], True), (["w249"], True), (["w7", "w8"], False),
                               ([], False), (["zz"], False)]:
            if regex.accepts(word) != expected:
                problems.append("union of %d symbols: accepts(%r) should be %s"
                                % (N, word, expected))
    attempt("Regex('w0|...|w249').accepts", check_union)

# 2. concatenation of 250 symbols: the language is that single word
regex2 = attempt("Regex('w0 w1 ... w249')", lambda: Regex(" ".join(WORDS)))
if regex2 is not None:
    def check_concat():
        for word, expected in [(WORDS, True), (WORDS[:-1], False), ([], False)]:
            if regex2.accepts(word) != expected:
                problems.append("concatenation of %d symbols: accepts(<%d symbols>) "
                                "should be %s" % (N, len(word), expected))
    attempt("Regex('w0 ... w249').accepts", check_concat)

if problems:
    print("DEFECT: the regex reader fails on inputs with a few hundred operands")
    for problem in problems:
        print(" -", problem)
    sys.exit(1)
print("ok")
sys.exit(0)
