"""C05 defect 5: the one-character symbol 'ɛ' (U+025B) is an ordinary symbol for
the regex reader, str() and to_cfg(), but accepts()/to_epsilon_nfa().accepts()
silently turn every 'ɛ' of the INPUT WORD into an epsilon and skip it, while the
transition built from the regex is labelled with the plain symbol 'ɛ'.
Result: Regex("ɛ") accepts no word at all (neither ['ɛ'] nor []), Regex("a")
accepts ['a', 'ɛ'], and accepts() disagrees with to_cfg().contains().

The documented epsilon spellings of Regex are only 'epsilon' and '$'.
The script tolerates both readings of 'ɛ' (plain symbol, or empty word) but
requires ONE reading shared by accepts, to_epsilon_nfa and to_cfg.

Run: PYTHONPATH=<checkout> /venv/bin/python defect5.py
"""
import itertools
import sys

from pyformlang.finite_automaton import Symbol
from pyformlang.regular_expression import Regex

E = "ɛ"
ALPHABET = ["a", E]


def ends(node, word, i):
    kind = node[0]
    if kind == "eps":
        return {i}
    if kind == "sym":
        return {i + 1} if i < len(word) and word[i] == node[1] else set()
    if kind == "union":
        return ends(node[1], word, i) | ends(node[2], word, i)
    if kind == "concat":
        return {k for j in ends(node[1], word, i) for k in ends(node[2], word, j)}
    raise AssertionError(kind)


def in_lang(node, word):
    return len(word) in ends(node, word, 0)


def cases(e_node):
    sym_a = ("sym", "a")
    return [(E, e_node),
            ("a " + E, ("concat", sym_a, e_node)),
            ("a|" + E, ("union", sym_a, e_node)),
            ("a", sym_a)]


def mismatches(e_node, plain):
    """plain reading: compare on all words; epsilon reading: only on words
    without the character (what such a word means is then unspecified)."""
    res = []
    for text, ast in cases(e_node):
        regex = Regex(text)
        enfa = regex.to_epsilon_nfa()
        # the automaton is given Symbol objects, so that only the regex side
        # (not the word conversion of EpsilonNFA.accepts) is under test
        views = [("accepts", regex.accepts),
                 ("to_epsilon_nfa().accepts",
                  lambda w, enfa=enfa: enfa.accepts([Symbol(x) for x in w])),
                 ("to_cfg().contains", regex.to_cfg().contains)]
        for length in range(3):
            for word in itertools.product(ALPHABET, repeat=length):
                word = list(word)
                if not plain and E in word:
                    continue
                expected = in_lang(ast, word)
                for name, view in views:
                    if view(word) != expected:
                        res.append("Regex(%r).%s(%r) is %s, expected %s"
                                   % (text, name, word, not expected, expected))
    return res


as_symbol = mismatches(("sym", E), plain=True)
as_epsilon = mismatches(("eps",), plain=False)
if as_symbol and as_epsilon:
    print("DEFECT: no consistent meaning for the symbol %r" % E)
    print(" reading 1, %r is an ordinary symbol (as the docs say): %d mismatches"
          % (E, len(as_symbol)))
    for line in as_symbol[:8]:
        print("   -", line)
    print(" reading 2, %r is the empty word: %d mismatches" % (E, len(as_epsilon)))
    for line in as_epsilon[:8]:
        print("   -", line)
    sys.exit(1)
print("ok")
sys.exit(0)
