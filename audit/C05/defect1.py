"""C05 defect 1: a backslash that escapes an operator is only removed when it is
the FIRST character of a symbol.  Anywhere else the backslash stays inside the
symbol, so  a\\*  denotes the symbol 'a\\*' (with the backslash) instead of 'a*',
and str() of that regex does not parse back to an equivalent regex.

Run: PYTHONPATH=<checkout> /venv/bin/python defect1.py
"""
import itertools
import sys

from pyformlang.regular_expression import Regex, MisformedRegexError

OPERATORS = ".|+*()$"


def oracle_symbols(text):
    """Independent reading of a text made only of symbol characters and escaped
    operators (no unescaped operator, no space): a backslash escapes the next
    character.  Two readings are tolerated: the whole text is ONE symbol, or
    every escaped operator is a symbol of its own (juxtaposition)."""
    one = []
    split = []
    buf = ""
    i = 0
    while i < len(text):
        if text[i] == "\\":
            one.append(text[i + 1])
            if buf:
                split.append(buf)
                buf = ""
            split.append(text[i + 1])
            i += 2
        else:
            assert text[i] not in OPERATORS + " "
            one.append(text[i])
            buf += text[i]
            i += 1
    if buf:
        split.append(buf)
    return ["".join(one)], split


def language(accepts, alphabet, max_len=3):
    res = set()
    for length in range(max_len + 1):
        for word in itertools.product(alphabet, repeat=length):
            if accepts(list(word)):
                res.add(word)
    return res


CASES = ["a\\*", "\\+\\+", "a\\|b", "\\(\\)", "ab\\.", "a\\$"]
problems = []
for text in CASES:
    one, split = oracle_symbols(text)
    # the symbol the current code invents: the raw text minus a leading backslash
    raw = text[1:] if text.startswith("\\") else text
    alphabet = sorted(set(one) | set(split) | {raw, "zz"})
    allowed = [{tuple(one)}, {tuple(split)}]
    try:
        regex = Regex(text)
    except MisformedRegexError as exc:
        problems.append("%r: well-formed text refused: %s" % (text, exc))
        continue
    views = [("accepts", regex.accepts),
             ("to_epsilon_nfa", regex.to_epsilon_nfa().accepts),
             ("to_cfg", regex.to_cfg().contains)]
    for name, accepts in views:
        lang = language(accepts, alphabet)
        if lang not in allowed:
            problems.append(
                "Regex(%r).%s: language over %r is %r, expected %r (or %r)"
                % (text, name, alphabet, sorted(lang), sorted(allowed[0]),
                   sorted(allowed[1])))
    printed = str(regex)
    try:
        back = Regex(printed)
    except Exception as exc:  # pylint: disable=broad-except
        problems.append("str(Regex(%r)) = %r does not parse back: %s: %s"
                        % (text, printed, type(exc).__name__, exc))
        continue
    lang_back = language(back.accepts, alphabet)
    lang_orig = language(regex.accepts, alphabet)
    if lang_back != lang_orig:
        problems.append(
            "str(Regex(%r)) = %r parses back to another language: %r vs %r"
            % (text, printed, sorted(lang_back), sorted(lang_orig)))

if problems:
    print("DEFECT: escaped operator inside a symbol keeps its backslash")
    for problem in problems:
        print(" -", problem)
    sys.exit(1)
print("ok")
sys.exit(0)
