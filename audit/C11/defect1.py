"""C11 defect 1: CFG.intersection crashes (AttributeError) when the grammar
has no start symbol (e.g. the empty grammar CFG(), which intersection itself
returns for an empty regular operand) and the regular operand is not empty.

Expected: a grammar generating nothing (the left operand generates nothing).
Exits 1 while the defect is present, 0 once it is repaired.
"""
import itertools
import sys

from pyformlang.cfg import CFG, Variable, Terminal, Production
from pyformlang.finite_automaton import (DeterministicFiniteAutomaton,
                                         NondeterministicFiniteAutomaton,
                                         EpsilonNFA)
from pyformlang.regular_expression import Regex


def words(alphabet, max_len):
    for n in range(max_len + 1):
        for w in itertools.product(alphabet, repeat=n):
            yield list(w)


def regulars():
    dfa = DeterministicFiniteAutomaton()
    dfa.add_transition(0, "a", 0)
    dfa.add_start_state(0)
    dfa.add_final_state(0)
    nfa = NondeterministicFiniteAutomaton()
    nfa.add_transitions([(0, "a", 1), (0, "a", 0)])
    nfa.add_start_state(0)
    nfa.add_final_state(1)
    enfa = EpsilonNFA()
    enfa.add_transitions([(0, "epsilon", 1), (1, "a", 1)])
    enfa.add_start_state(0)
    enfa.add_final_state(1)
    return [("Regex('a*')", Regex("a*")), ("Regex('$')", Regex("$")),
            ("DFA a*", dfa), ("NFA a+", nfa), ("eps-NFA a*", enfa)]


def grammars_without_start_symbol():
    var_s = Variable("S")
    yield "CFG()", CFG()
    yield "CFG(variables={S}, terminals={a})", \
        CFG(variables={var_s}, terminals={Terminal("a")})
    yield "CFG(productions={S -> a, S -> epsilon}) [no start symbol]", \
        CFG(productions={Production(var_s, [Terminal("a")]),
                         Production(var_s, [])})
    # the library's own result for an empty regular operand is CFG():
    anbn = CFG.from_text("S -> a S b | ")
    no_final = DeterministicFiniteAutomaton()
    no_final.add_transition(0, "a", 0)
    no_final.add_start_state(0)          # no final state: empty language
    yield "(a^n b^n).intersection(empty DFA)", anbn.intersection(no_final)


failures = []
for g_name, grammar in grammars_without_start_symbol():
    assert grammar.start_symbol is None
    # oracle: without a start symbol nothing is generated
    assert not any(grammar.contains(w) for w in words(["a", "b"], 3))
    for r_name, regular in regulars():
        try:
            result = grammar.intersection(regular)
        except NotImplementedError:
            raise
        except Exception as exc:  # pylint: disable=broad-except
            failures.append("%s .intersection(%s): raised %s: %s" %
                            (g_name, r_name, type(exc).__name__, exc))
            continue
        wrong = [w for w in words(["a", "b"], 3) if result.contains(w)]
        if wrong or not result.is_empty():
            failures.append("%s .intersection(%s): generates %s, expected "
                            "nothing" % (g_name, r_name, wrong))

if failures:
    print("DEFECT: intersection of a grammar without start symbol with a "
          "non-empty regular language must be the empty language, but:")
    for line in failures:
        print("  -", line)
    sys.exit(1)
print("ok")
sys.exit(0)
