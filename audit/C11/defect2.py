"""C11 defect 2: CFG.intersection hands the raw value of a terminal to the
automaton, which re-interprets it: a terminal whose text is "ɛ" is looked up
as an epsilon transition, so every word using that terminal is lost from the
intersection (PDA.intersection wraps the value in a Symbol and is right).

Grammar  S -> ɛ S | a   (ɛ is an ordinary terminal of the grammar)
Automaton  0 -ɛ-> 0, 0 -a-> 1, start 0, final 1  (ɛ is an ordinary symbol)
Both contain [a], [ɛ, a], [ɛ, ɛ, a], ...; the intersection only keeps [a].

Exits 1 while the defect is present, 0 once it is repaired.
"""
import itertools
import sys

from pyformlang.cfg import CFG, Variable, Terminal, Production
from pyformlang.finite_automaton import (DeterministicFiniteAutomaton,
                                         EpsilonNFA, Symbol)

ODD = "ɛ"            # U+025B, the second spelling of epsilon in to_symbol


def words(alphabet, max_len):
    for n in range(max_len + 1):
        for w in itertools.product(alphabet, repeat=n):
            yield list(w)


# --- independent oracles -------------------------------------------------
def grammar_generates(rules, start, word):
    """rules: list of (head, body); body items are ("V", name) / ("T", value).
    Least fixed point of  derives(X, i, j)."""
    n = len(word)
    table = {}
    changed = True
    while changed:
        changed = False
        for head, body in rules:
            for i in range(n + 1):
                ends = {i}
                for kind, value in body:
                    if kind == "T":
                        ends = {e + 1 for e in ends
                                if e < n and word[e] == value}
                    else:
                        ends = set().union(
                            *[table.get((value, e), set()) for e in ends])
                    if not ends:
                        break
                if ends and not ends <= table.setdefault((head, i), set()):
                    table[(head, i)] |= ends
                    changed = True
    return n in table.get((start, 0), set())


def automaton_accepts(transitions, start, finals, word):
    """transitions: set of (state, value, state), no epsilon transitions"""
    current = {start}
    for letter in word:
        current = {t for (s, a, t) in transitions
                   if s in current and a == letter}
    return bool(current & finals)


def rules_of(cfg):
    rules = []
    for production in cfg.productions:
        body = [("V" if isinstance(x, Variable) else "T", x.value)
                for x in production.body]
        rules.append((production.head.value, body))
    return rules


# --- the input -------------------------------------------------------------
var_s = Variable("S")
grammar = CFG(start_symbol=var_s,
              productions={Production(var_s, [Terminal(ODD), var_s]),
                           Production(var_s, [Terminal("a")])})
g_rules = [("S", [("T", ODD), ("V", "S")]), ("S", [("T", "a")])]

fa_transitions = {(0, ODD, 0), (0, "a", 1)}


def build(cls):
    automaton = cls()
    for s_from, value, s_to in fa_transitions:
        # Symbol(...) given explicitly: an ordinary symbol of the alphabet
        automaton.add_transition(s_from, Symbol(value), s_to)
    automaton.add_start_state(0)
    automaton.add_final_state(1)
    return automaton


failures = []
for cls in (DeterministicFiniteAutomaton, EpsilonNFA):
    regular = build(cls)
    result = grammar.intersection(regular)
    res_rules = rules_of(result)
    res_start = result.start_symbol.value if result.start_symbol else None
    for word in words([ODD, "a", "b"], 4):
        in_grammar = grammar_generates(g_rules, "S", word)
        in_regular = automaton_accepts(fa_transitions, 0, {1}, word)
        # the library agrees with the oracles on the two operands
        assert grammar.contains(word) == in_grammar, word
        assert regular.accepts([Symbol(x) for x in word]) == in_regular, word
        expected = in_grammar and in_regular
        got = grammar_generates(res_rules, res_start, word)
        got_contains = result.contains(word)
        if got != expected or got_contains != expected:
            failures.append("%s: word %r expected %s, productions of the "
                            "result give %s, result.contains gives %s" %
                            (cls.__name__, word, expected, got, got_contains))

if failures:
    print("DEFECT: cfg.intersection(r) is not L(cfg) & L(r) when a terminal "
          "is spelled %r:" % ODD)
    for line in failures[:8]:
        print("  -", line)
    print("  (%d wrong words up to length 4)" % len(failures))
    sys.exit(1)
print("ok")
sys.exit(0)
