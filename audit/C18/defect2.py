"""FCFG.from_text: with "head -> body1 | body2" the feature structures of body1
are attached to the symbols of body2 (and those of body2 are shifted away)."""
import sys
from pyformlang.fcfg import FCFG

import itertools


def oracle_contains(prods, start, word, feats, values):
    """Membership in the plain CFG obtained by instantiating every feature
    variable ("?x") with every value, an absent feature being unconstrained.
    prods: list of (head, head_feats, body); body items are (symbol, feats) for
    variables and (symbol, None) for terminals; feats: dict name -> const | "?v".
    """
    n = len(word)
    assigns = list(itertools.product(values, repeat=len(feats)))

    def matches(pat, sigma, asg):
        for i, name in enumerate(feats):
            if name in pat:
                want = pat[name]
                if want.startswith("?"):
                    want = sigma[want]
                if asg[i] != want:
                    return False
        return True

    items = set()
    changed = True
    while changed:
        changed = False
        for head, hpat, body in prods:
            vs = sorted({v for pat in [hpat] + [f for _, f in body if f is not None]
                         for v in pat.values() if v.startswith("?")})
            for combo in itertools.product(values, repeat=len(vs)):
                sigma = dict(zip(vs, combo))
                for i in range(n + 1):
                    cur = {i}
                    for sym, pat in body:
                        nxt = set()
                        for pos in cur:
                            if pat is None:
                                if pos < n and word[pos] == sym:
                                    nxt.add(pos + 1)
                            else:
                                for (nt, a, b, asg) in items:
                                    if nt == sym and a == pos and matches(pat, sigma, asg):
                                        nxt.add(b)
                        cur = nxt
                    for j in cur:
                        for asg in assigns:
                            if matches(hpat, sigma, asg) and (head, i, j, asg) not in items:
                                items.add((head, i, j, asg))
                                changed = True
    return any(nt == start and a == 0 and b == n for (nt, a, b, _) in items)


def to_text(prods):
    def occ(sym, pat):
        if not pat:
            return sym
        return sym + "[" + ",".join(k + "=" + v for k, v in pat.items()) + "]"
    lines = []
    for head, hpat, body in prods:
        rhs = " ".join(occ(s, p) for s, p in body) if body else "epsilon"
        lines.append(occ(head, hpat) + " -> " + rhs)
    return "\n".join(lines)

TEXT = """
S -> A[N=sg] | B[N=pl]
A[N=sg] -> a
B[N=pl] -> b
"""
# the same grammar, one alternative per production, for the oracle
PRODS = [
    ("S", {}, [("A", {"N": "sg"})]),
    ("S", {}, [("B", {"N": "pl"})]),
    ("A", {"N": "sg"}, [("a", None)]),
    ("B", {"N": "pl"}, [("b", None)]),
]
fcfg = FCFG.from_text(TEXT)
fcfg_split = FCFG.from_text(to_text(PRODS))
bad = 0
for word in (["a"], ["b"], [], ["a", "b"]):
    expected = oracle_contains(PRODS, "S", word, ["N"], ["sg", "pl"])
    observed = fcfg.contains(word)
    observed_split = fcfg_split.contains(word)
    if expected != observed or expected != observed_split:
        bad += 1
        print("contains(%r): expected %s, with '|' observed %s, one rule per line observed %s"
              % (word, expected, observed, observed_split))
if bad:
    print("productions read from the text with '|':")
    for production in fcfg.productions:
        print("   ", production)
sys.exit(1 if bad else 0)
