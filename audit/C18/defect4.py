"""Chart pruning ignores variable sharing: an Earley state whose features are
MORE constrained (X and Y are the same variable) "subsumes" and discards the
more general state (X and Y independent); words that need the general one are
rejected."""
import sys
from pyformlang.fcfg import FCFG

import itertools


def oracle_contains(prods, start, word, feats, values):
    """Membership in the plain CFG obtained by instantiating every feature
    variable ("?x") with every value, an absent feature being unconstrained.
    prods: list of (head, head_feats, body); body items are (symbol, feats) for
    variables and (symbol, None) for terminals; feats: dict name -> const | "?v".
    """
    n = len(word)
    assigns = list(itertools.product(values, repeat=len(feats)))

    def matches(pat, sigma, asg):
        for i, name in enumerate(feats):
            if name in pat:
                want = pat[name]
                if want.startswith("?"):
                    want = sigma[want]
                if asg[i] != want:
                    return False
        return True

    items = set()
    changed = True
    while changed:
        changed = False
        for head, hpat, body in prods:
            vs = sorted({v for pat in [hpat] + [f for _, f in body if f is not None]
                         for v in pat.values() if v.startswith("?")})
            for combo in itertools.product(values, repeat=len(vs)):
                sigma = dict(zip(vs, combo))
                for i in range(n + 1):
                    cur = {i}
                    for sym, pat in body:
                        nxt = set()
                        for pos in cur:
                            if pat is None:
                                if pos < n and word[pos] == sym:
                                    nxt.add(pos + 1)
                            else:
                                for (nt, a, b, asg) in items:
                                    if nt == sym and a == pos and matches(pat, sigma, asg):
                                        nxt.add(b)
                        cur = nxt
                    for j in cur:
                        for asg in assigns:
                            if matches(hpat, sigma, asg) and (head, i, j, asg) not in items:
                                items.add((head, i, j, asg))
                                changed = True
    return any(nt == start and a == 0 and b == n for (nt, a, b, _) in items)


def to_text(prods):
    def occ(sym, pat):
        if not pat:
            return sym
        return sym + "[" + ",".join(k + "=" + v for k, v in pat.items()) + "]"
    lines = []
    for head, hpat, body in prods:
        rhs = " ".join(occ(s, p) for s, p in body) if body else "epsilon"
        lines.append(occ(head, hpat) + " -> " + rhs)
    return "\n".join(lines)

PRODS = [
    ("S", {}, [("A", {"X": "?x", "Y": "?y", "Z": "?z"}), ("R", {"X": "?x", "Y": "?y", "Z": "?z"})]),
    ("A", {"X": "?a", "Y": "?a", "Z": "?b"}, [("T", {})]),   # X and Y shared
    ("A", {"X": "?a", "Y": "?b", "Z": "?b"}, [("U", {})]),   # Y and Z shared
    ("T", {}, [("t", None)]),
    ("U", {}, [("t", None)]),
    ("R", {"X": "p", "Y": "q", "Z": "q"}, [("r", None)]),    # needs the second A
    ("R", {"X": "p", "Y": "p", "Z": "q"}, [("s", None)]),    # needs the first A
]
fcfg = FCFG.from_text(to_text(PRODS))
bad = 0
for word in (["t", "r"], ["t", "s"], ["t"], ["r"], ["t", "t"]):
    expected = oracle_contains(PRODS, "S", word, ["X", "Y", "Z"], ["p", "q"])
    observed = fcfg.contains(word)
    if observed != expected:
        bad += 1
        print("contains(%r): expected %s, observed %s" % (word, expected, observed))
# each A production alone is handled correctly
for drop, word in ((1, ["t", "s"]), (2, ["t", "r"])):
    sub = [p for i, p in enumerate(PRODS) if i != 3 - drop]
    expected = oracle_contains(sub, "S", word, ["X", "Y", "Z"], ["p", "q"])
    observed = FCFG.from_text(to_text(sub)).contains(word)
    print("control, without A production #%d, contains(%r): expected %s, observed %s"
          % (3 - drop, word, expected, observed))
    if observed != expected:
        bad += 1
sys.exit(1 if bad else 0)
