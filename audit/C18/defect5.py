"""After unify, get_all_paths() and repr() of the receiver do not show all the
information of the unified structure (they do not follow the pointers that
unify installs), although get_feature_by_path() finds it."""
import sys
from pyformlang.fcfg import FeatureStructure


def oracle_unify(nodes, root_a, root_b):
    """Independent graph unification (union-find). nodes: list of
    {"val": atomic or None, "ch": {feature: node index}}.
    Returns {path: value} for every path of the unified structure, or None."""
    parent = list(range(len(nodes)))
    val = [n.get("val") for n in nodes]
    children = [dict(n.get("ch", {})) for n in nodes]

    def find(x):
        while parent[x] != x:
            x = parent[x]
        return x

    def unify(x, y):
        x, y = find(x), find(y)
        if x == y:
            return True
        if val[x] is not None and val[y] is not None and val[x] != val[y]:
            return False
        parent[y] = x
        if val[x] is None:
            val[x] = val[y]
        for feature, child in list(children[y].items()):
            if feature in children[x]:
                if not unify(children[x][feature], child):
                    return False
            else:
                children[x][feature] = child
        return True

    if not unify(root_a, root_b):
        return None
    paths = {}

    def walk(x, path):
        x = find(x)
        paths[path] = val[x]
        for feature, child in children[x].items():
            walk(child, path + (feature,))
    walk(root_a, ())
    return paths


def build(nodes, root):
    objs = {}

    def make(i):
        if i not in objs:
            objs[i] = FeatureStructure(nodes[i].get("val"))
            for feature, child in nodes[i].get("ch", {}).items():
                objs[i].add_content(feature, make(child))
        return objs[i]
    return make(root)


# receiver  [SUBJ=[NUM=sg]]      argument  [HEAD=(1), SUBJ=(1)]  (HEAD and SUBJ shared)
NODES = [
    {"ch": {"SUBJ": 1}}, {"ch": {"NUM": 2}}, {"val": "sg"},      # receiver: 0
    {"ch": {"HEAD": 4, "SUBJ": 4}}, {},                          # argument: 3
]
bad = 0
for receiver, argument in ((0, 3), (3, 0)):
    expected = oracle_unify(NODES, receiver, argument)
    first = build(NODES, receiver)
    second = build(NODES, argument)
    first.unify(second)
    expected_maximal = sorted(p for p in expected
                              if not any(q[:len(p)] == p and len(q) > len(p) for q in expected))
    observed = sorted(tuple(p) for p in first.get_all_paths())
    # get_feature_by_path agrees with the oracle on every path ...
    for path, value in expected.items():
        assert first.get_feature_by_path(list(path)).value == value, path
    # ... but the listing of the paths does not
    if observed != expected_maximal:
        bad += 1
        print("receiver node %d, argument node %d:" % (receiver, argument))
        print("   expected paths of the unified structure:", expected_maximal)
        print("   get_all_paths():                        ", observed)
        print("   repr():", repr(first))
        for path in expected_maximal:
            if path not in observed:
                print("   missing path %s, yet get_feature_by_path(%s).value == %r"
                      % (".".join(path), list(path), first.get_feature_by_path(list(path)).value))
sys.exit(1 if bad else 0)
