"""Two feature productions that differ only in their features are one production.

FCFG.from_text (and any set of FeatureProduction) silently drops
"D[N=pl] -> the" because it compares equal to "D[N=sg] -> the".
"""
import sys
from pyformlang.fcfg import FCFG, FeatureProduction, FeatureStructure
from pyformlang.cfg import Variable, Terminal

import itertools


def oracle_contains(prods, start, word, feats, values):
    """Membership in the plain CFG obtained by instantiating every feature
    variable ("?x") with every value, an absent feature being unconstrained.
    prods: list of (head, head_feats, body); body items are (symbol, feats) for
    variables and (symbol, None) for terminals; feats: dict name -> const | "?v".
    """
    n = len(word)
    assigns = list(itertools.product(values, repeat=len(feats)))

    def matches(pat, sigma, asg):
        for i, name in enumerate(feats):
            if name in pat:
                want = pat[name]
                if want.startswith("?"):
                    want = sigma[want]
                if asg[i] != want:
                    return False
        return True

    items = set()
    changed = True
    while changed:
        changed = False
        for head, hpat, body in prods:
            vs = sorted({v for pat in [hpat] + [f for _, f in body if f is not None]
                         for v in pat.values() if v.startswith("?")})
            for combo in itertools.product(values, repeat=len(vs)):
                sigma = dict(zip(vs, combo))
                for i in range(n + 1):
                    cur = {i}
                    for sym, pat in body:
                        nxt = set()
                        for pos in cur:
                            if pat is None:
                                if pos < n and word[pos] == sym:
                                    nxt.add(pos + 1)
                            else:
                                for (nt, a, b, asg) in items:
                                    if nt == sym and a == pos and matches(pat, sigma, asg):
                                        nxt.add(b)
                        cur = nxt
                    for j in cur:
                        for asg in assigns:
                            if matches(hpat, sigma, asg) and (head, i, j, asg) not in items:
                                items.add((head, i, j, asg))
                                changed = True
    return any(nt == start and a == 0 and b == n for (nt, a, b, _) in items)


def to_text(prods):
    def occ(sym, pat):
        if not pat:
            return sym
        return sym + "[" + ",".join(k + "=" + v for k, v in pat.items()) + "]"
    lines = []
    for head, hpat, body in prods:
        rhs = " ".join(occ(s, p) for s, p in body) if body else "epsilon"
        lines.append(occ(head, hpat) + " -> " + rhs)
    return "\n".join(lines)

PRODS = [
    ("S", {}, [("D", {"N": "?n"}), ("V", {"N": "?n"})]),
    ("D", {"N": "sg"}, [("the", None)]),
    ("D", {"N": "pl"}, [("the", None)]),
    ("V", {"N": "sg"}, [("runs", None)]),
    ("V", {"N": "pl"}, [("run", None)]),
]
bad = 0
fcfg = FCFG.from_text(to_text(PRODS))
if len(fcfg.productions) != len(PRODS):
    print("from_text kept", len(fcfg.productions), "of", len(PRODS), "productions:")
    for production in fcfg.productions:
        print("   ", production)
for word in (["the", "runs"], ["the", "run"], ["the", "the"], ["the"], []):
    expected = oracle_contains(PRODS, "S", word, ["N"], ["sg", "pl"])
    observed = fcfg.contains(word)
    if expected != observed:
        bad += 1
        print("contains(%r): expected %s, observed %s" % (word, expected, observed))

# The same through the constructor with a set of productions
p_sg = FeatureProduction(Variable("D"), [Terminal("the")],
                         FeatureStructure.from_text("N=sg"), [FeatureStructure()])
p_pl = FeatureProduction(Variable("D"), [Terminal("the")],
                         FeatureStructure.from_text("N=pl"), [FeatureStructure()])
if bad and (p_sg == p_pl or len({p_sg, p_pl}) != 2):
    print("FeatureProduction D[N=sg] -> the  ==  D[N=pl] -> the :", p_sg == p_pl,
          "; a set of both has", len({p_sg, p_pl}), "element(s)")
sys.exit(1 if bad else 0)
