"""A grammar that uses a variable called "Gamma" gets the spurious production
Gamma -> <start symbol> (the internal dummy rule of the Earley parser leaks)."""
import sys
from pyformlang.fcfg import FCFG
from pyformlang.cfg import CFG

import itertools


def oracle_contains(prods, start, word, feats, values):
    """Membership in the plain CFG obtained by instantiating every feature
    variable ("?x") with every value, an absent feature being unconstrained.
    prods: list of (head, head_feats, body); body items are (symbol, feats) for
    variables and (symbol, None) for terminals; feats: dict name -> const | "?v".
    """
    n = len(word)
    assigns = list(itertools.product(values, repeat=len(feats)))

    def matches(pat, sigma, asg):
        for i, name in enumerate(feats):
            if name in pat:
                want = pat[name]
                if want.startswith("?"):
                    want = sigma[want]
                if asg[i] != want:
                    return False
        return True

    items = set()
    changed = True
    while changed:
        changed = False
        for head, hpat, body in prods:
            vs = sorted({v for pat in [hpat] + [f for _, f in body if f is not None]
                         for v in pat.values() if v.startswith("?")})
            for combo in itertools.product(values, repeat=len(vs)):
                sigma = dict(zip(vs, combo))
                for i in range(n + 1):
                    cur = {i}
                    for sym, pat in body:
                        nxt = set()
                        for pos in cur:
                            if pat is None:
                                if pos < n and word[pos] == sym:
                                    nxt.add(pos + 1)
                            else:
                                for (nt, a, b, asg) in items:
                                    if nt == sym and a == pos and matches(pat, sigma, asg):
                                        nxt.add(b)
                        cur = nxt
                    for j in cur:
                        for asg in assigns:
                            if matches(hpat, sigma, asg) and (head, i, j, asg) not in items:
                                items.add((head, i, j, asg))
                                changed = True
    return any(nt == start and a == 0 and b == n for (nt, a, b, _) in items)


def to_text(prods):
    def occ(sym, pat):
        if not pat:
            return sym
        return sym + "[" + ",".join(k + "=" + v for k, v in pat.items()) + "]"
    lines = []
    for head, hpat, body in prods:
        rhs = " ".join(occ(s, p) for s, p in body) if body else "epsilon"
        lines.append(occ(head, hpat) + " -> " + rhs)
    return "\n".join(lines)

bad = 0
# 1. feature free: must agree with CFG.contains
PRODS = [
    ("S", {}, [("a", None)]),
    ("S", {}, [("Gamma", {}), ("b", None)]),
    ("Gamma", {}, [("c", None)]),
]
TEXT = to_text(PRODS)
fcfg = FCFG.from_text(TEXT)
cfg = CFG.from_text(TEXT)
for word in (["a"], ["c", "b"], ["a", "b"], ["a", "b", "b"], ["b"]):
    expected = oracle_contains(PRODS, "S", word, [], [])
    if cfg.contains(word) != expected:
        print("oracle and CFG.contains disagree on", word)
    observed = fcfg.contains(word)
    if observed != expected:
        bad += 1
        print("feature-free grammar, contains(%r): expected %s (CFG.contains: %s), observed %s"
              % (word, expected, cfg.contains(word), observed))

# 2. with features, Gamma being the start symbol: the features of Gamma are lost
PRODS2 = [
    ("Gamma", {"X": "q"}, [("a", None)]),
    ("Gamma", {}, [("Gamma", {"X": "p"}), ("b", None)]),
]
fcfg2 = FCFG.from_text(to_text(PRODS2), start_symbol="Gamma")
# control: the same grammar with another name
PRODS3 = [(h.replace("Gamma", "G"), hf, [(s.replace("Gamma", "G"), f) for s, f in body])
          for h, hf, body in PRODS2]
fcfg3 = FCFG.from_text(to_text(PRODS3), start_symbol="G")
for word in (["a"], ["a", "b"], ["a", "b", "b"]):
    expected = oracle_contains(PRODS2, "Gamma", word, ["X"], ["p", "q"])
    observed = fcfg2.contains(word)
    if observed != expected:
        bad += 1
        print("start symbol Gamma, contains(%r): expected %s, observed %s (same grammar "
              "with Gamma renamed to G: %s)" % (word, expected, observed, fcfg3.contains(word)))
sys.exit(1 if bad else 0)
