"""C10 defect 2: a grammar WITHOUT start symbol (empty language) that has a variable whose value
is None is treated by substitute (hence union / concatenate / closures) as if Variable(None) were
its start symbol, because `None in {Variable(None): ...}` is True (Variable.__eq__ falls back to
`self._value == other` for non-CFG objects)."""
import sys
from pyformlang.cfg import CFG, Variable, Terminal, Production

N = 3


def lang(start, rules, n):
    if start is None:
        return set()
    cur = {h: set() for h, _ in rules}
    changed = True
    while changed:
        changed = False
        for h, body in rules:
            acc = {()}
            for s in body:
                opts = {(s[1],)} if s[0] == "T" else cur.get(s, set())
                acc = {u + v for u in acc for v in opts if len(u) + len(v) <= n}
            if not acc <= cur[h]:
                cur[h] |= acc
                changed = True
    return cur.get(start, set())


def sym(o):
    return ("V", o.value) if isinstance(o, Variable) else ("T", o.value)


def lib_lang(cfg, n):
    st = cfg.start_symbol
    return lang(None if st is None else sym(st),
                [(sym(p.head), tuple(sym(x) for x in p.body)) for p in cfg.productions], n)


X = Variable(None)          # Variable accepts any value
S = Variable("S")
a, b = Terminal("a"), Terminal("b")
g1 = CFG({X}, {a}, None, {Production(X, [a])})      # no start symbol  => L(g1) = {}
g2 = CFG({S}, {b}, S, {Production(S, [b])})         # L(g2) = {b}
assert g1.start_symbol is None
l1, l2 = set(), {("b",)}

cases = {
    "g1 | g2": (g1 | g2, l1 | l2),
    "g2 | g1": (g2 | g1, l1 | l2),
    "g1 + g2": (g1 + g2, set()),
    "g1.get_positive_closure()": (g1.get_positive_closure(), set()),
    "g1.get_closure()": (g1.get_closure(), {()}),
    "g2.substitute({b: g1})": (g2.substitute({b: g1}), set()),
    "g1.substitute({})": (g1.substitute({}), set()),
}
bad = 0
for name, (res, exp) in cases.items():
    got = lib_lang(res, N)
    # results only contain string-named variables, so the library's own enumeration is usable too
    got2 = {tuple(t.value for t in w) for w in res.get_words(N)}
    if got != exp or got2 != exp:
        bad = 1
        print("%s: expected %s, grammar generates %s (get_words: %s); start symbol %r" % (
            name, sorted(exp), sorted(got), sorted(got2), res.start_symbol))
if bad:
    print("DEFECT: an operand without start symbol contributed words (Variable(None) taken as start)")
sys.exit(bad)
