"""C10 defect 1: a CFG whose productions were given as a one-shot iterable (generator, map, ...;
the constructor is annotated `productions: Iterable[Production]`) silently loses ALL its
productions in union / concatenate / closure / reverse / substitute."""
import sys
from pyformlang.cfg import CFG, Variable, Terminal, Production

N = 4


def lang(start, rules, n):
    """own bounded oracle; rules = list of (head, body), symbols are ('V',x)/('T',x)"""
    if start is None:
        return set()
    cur = {h: set() for h, _ in rules}
    changed = True
    while changed:
        changed = False
        for h, body in rules:
            acc = {()}
            for s in body:
                opts = {(s[1],)} if s[0] == "T" else cur.get(s, set())
                acc = {u + v for u in acc for v in opts if len(u) + len(v) <= n}
            if not acc <= cur[h]:
                cur[h] |= acc
                changed = True
    return cur.get(start, set())


def sym(o):
    return ("V", o.value) if isinstance(o, Variable) else ("T", o.value)


def lib_lang(cfg, n):
    st = cfg.start_symbol
    return lang(None if st is None else sym(st),
                [(sym(p.head), tuple(sym(x) for x in p.body)) for p in cfg.productions], n)


def mk(x):
    return Variable(x[1]) if x[0] == "V" else Terminal(x[1])


S = ("V", "S")
a, b, c = ("T", "a"), ("T", "b"), ("T", "c")
rules1 = [(S, (a, S)), (S, (b,))]          # a* b
rules2 = [(S, (c,))]                        # c
# g1 built from a generator expression (an Iterable[Production], as documented)
g1 = CFG(start_symbol=mk(S), productions=(Production(mk(h), [mk(x) for x in bd]) for h, bd in rules1))
g2 = CFG(start_symbol=mk(S), productions=[Production(mk(h), [mk(x) for x in bd]) for h, bd in rules2])
l1, l2 = lang(S, rules1, N), lang(S, rules2, N)

cat = lambda x, y: {u + v for u in x for v in y if len(u) + len(v) <= N}
star = {()}
while star != star | cat(star, l1):
    star |= cat(star, l1)
expected = {
    "union": (lambda: g1 | g2, l1 | l2),
    "concatenate": (lambda: g1 + g2, cat(l1, l2)),
    "concatenate (generator grammar on the right)": (lambda: g2 + g1, cat(l2, l1)),
    "get_closure": (lambda: g1.get_closure(), star),
    "get_positive_closure": (lambda: g1.get_positive_closure(), cat(l1, star)),
    "reverse": (lambda: ~g1, {w[::-1] for w in l1}),
    "substitute c -> g1": (lambda: g2.substitute({Terminal("c"): g1}), l1),
}
bad = 0
for name, (op, exp) in expected.items():
    try:
        got = lib_lang(op(), N)
    except Exception as exc:  # pylint: disable=broad-except
        print(name, ": raised", repr(exc))
        bad = 1
        continue
    if got != exp:
        bad = 1
        print("%s: wrong language. missing %s extra %s" % (
            name, sorted(exp - got)[:4], sorted(got - exp)[:4]))
if bad:
    print("DEFECT: the grammar built from a generator of productions is treated as having no productions")
sys.exit(bad)
