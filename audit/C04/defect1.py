"""NondeterministicFiniteAutomaton.add_transition lets an epsilon move in when
epsilon is written "epsilon" or "ɛ" (only the Epsilon() object is refused).
The automaton then has an epsilon move 0 -> 1, yet is_deterministic() says True
and the word-level functions disagree with each other."""
import sys
from pyformlang.finite_automaton import (NondeterministicFiniteAutomaton,
                                         Epsilon, InvalidEpsilonTransition)

problems = []
for eps_text in ("epsilon", "ɛ"):
    nfa = NondeterministicFiniteAutomaton()
    nfa.add_start_state(0)
    nfa.add_final_state(1)
    try:
        nfa.add_transition(0, eps_text, 1)
    except InvalidEpsilonTransition:
        continue  # documented behaviour, same as for Epsilon()

    # The transition was taken.  Read the automaton back through the public
    # API and decide determinism from the definition.
    edges = list(nfa)
    eps_to_other = any(isinstance(symb, Epsilon) and s_from != s_to
                       for s_from, symb, s_to in edges)
    succ = {}
    for s_from, symb, s_to in edges:
        succ.setdefault((s_from, symb), set()).add(s_to)
    oracle_det = (len(nfa.start_states) <= 1
                  and all(len(x) <= 1 for x in succ.values())
                  and not eps_to_other)
    if eps_to_other:
        problems.append("add_transition(0, %r, 1) on an NFA stored the epsilon "
                        "move %r instead of raising InvalidEpsilonTransition"
                        % (eps_text, edges))
    if nfa.is_deterministic() != oracle_det:
        problems.append("is_deterministic() = %r, by definition %r (edges %r)"
                        % (nfa.is_deterministic(), oracle_det, edges))
    words = [tuple(w) for w in nfa.get_accepted_words(2)]
    for word in words:
        if not nfa.accepts(list(word)):
            problems.append("get_accepted_words yields %r and is_empty() = %r "
                            "but accepts(%r) is False"
                            % (list(word), nfa.is_empty(), list(word)))

if problems:
    print("\n".join(problems))
    sys.exit(1)
print("ok")
