"""EpsilonNFA(transition_function=..., start_state=..., final_states=...):
every constructor argument is optional, start and final states are added to the
set of states, but the states and symbols of the transition function are not.
is_empty, is_acyclic, is_deterministic and get_accepted_words then each look at
a different part of the automaton and contradict the definition (and accepts)."""
import sys
from itertools import product
from pyformlang.finite_automaton import (EpsilonNFA, Epsilon, State, Symbol,
                                         NondeterministicTransitionFunction)

EDGES = [(0, "a", 1), (1, "b", 2), (1, None, 3), (3, "a", 3)]  # None: epsilon
STARTS, FINALS = {0}, {2}


def build(**kwargs):
    function = NondeterministicTransitionFunction()
    for s_from, symb, s_to in EDGES:
        function.add_transition(State(s_from),
                                Epsilon() if symb is None else Symbol(symb),
                                State(s_to))
    return EpsilonNFA(transition_function=function, start_state=STARTS,
                      final_states=FINALS, **kwargs)


# ---- oracle on the plain description ----
def eclose(states):
    states = set(states)
    todo = list(states)
    while todo:
        cur = todo.pop()
        for s_from, symb, s_to in EDGES:
            if s_from == cur and symb is None and s_to not in states:
                states.add(s_to)
                todo.append(s_to)
    return states


def accepted(word):
    cur = eclose(STARTS)
    for letter in word:
        cur = eclose({t for (f, s, t) in EDGES if f in cur and s == letter})
    return bool(cur & FINALS)


ALPHABET = sorted({s for _, s, _ in EDGES if s is not None})
WORDS = {w for n in range(4) for w in product(ALPHABET, repeat=n) if accepted(w)}
ORACLE_EMPTY = not WORDS            # 4 states: a word of length <= 3 exists
ORACLE_DET = False                  # epsilon move 1 -> 3
ORACLE_ACYCLIC = False              # 0 -a-> 1 -eps-> 3 -a-> 3

problems = []
for kwargs in ({}, {"states": {0, 1, 2, 3}}, {"input_symbols": {"a", "b"}}):
    try:
        enfa = build(**kwargs)
    except (ValueError, TypeError) as exc:   # a repair may refuse the input
        print("constructor refuses", kwargs, exc)
        continue
    got_words = {tuple(x.value for x in w) for w in enfa.get_accepted_words(3)}
    for name, got, expected in (
            ("is_empty()", enfa.is_empty(), ORACLE_EMPTY),
            ("is_deterministic()", enfa.is_deterministic(), ORACLE_DET),
            ("is_acyclic()", enfa.is_acyclic(), ORACLE_ACYCLIC),
            ("get_accepted_words(3)", got_words, WORDS)):
        if got != expected:
            problems.append("EpsilonNFA(transition_function=tf, start_state="
                            "{0}, final_states={2}, **%r): %s = %r, expected "
                            "%r (accepts(['a','b']) = %r)"
                            % (kwargs, name, got, expected,
                               enfa.accepts(["a", "b"])))
if problems:
    print("\n".join(problems))
    sys.exit(1)
print("ok")
