"""C12 defect 3: get_generating_symbols() and get_nullable_symbols() hand out the
grammar's internal cached set.  A caller that edits the result it was given
(e.g. keeps only the variables) silently changes the grammar's later answers:
is_empty(), get_words(), get_generating_symbols(), get_nullable_symbols()."""
import sys
from pyformlang.cfg import CFG, Variable, Terminal, Production

S, A = Variable("S"), Variable("A")
a, b = Terminal("a"), Terminal("b")


def make():
    # S -> A b | a ;  A -> a | epsilon      language {b, ab, a}
    return CFG(start_symbol=S, productions={
        Production(S, [A, b]), Production(S, [a]),
        Production(A, [a]), Production(A, [])})


def answers(cfg):
    return dict(
        generating=set(cfg.get_generating_symbols()),
        nullable=set(cfg.get_nullable_symbols()),
        is_empty=cfg.is_empty(),
        words=sorted([tuple(x.value for x in w) for w in cfg.get_words(3)]))


expected = answers(make())          # fresh object, nothing touched: the oracle
bad = []

cfg = make()
result = cfg.get_generating_symbols()
result.difference_update({S, a, b})  # the caller post-processes ITS result
got = answers(cfg)
if got != expected:
    bad.append("after editing the set returned by get_generating_symbols():\n  got      %r\n  expected %r"
               % (got, expected))

cfg = make()
result = cfg.get_nullable_symbols()
result.add(S)                        # the caller post-processes ITS result
got = answers(cfg)
if got != expected:
    bad.append("after editing the set returned by get_nullable_symbols():\n  got      %r\n  expected %r"
               % (got, expected))

for line in bad:
    print(line)
sys.exit(1 if bad else 0)
