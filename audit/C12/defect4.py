"""C12 defect 4: is_finite() and get_words(n) raise RecursionError on a grammar
with one long production body (about 1000 symbols) as soon as the grammar has a
nullable symbol or a unit production (i.e. whenever to_normal_form has to run
remove_epsilon).  is_empty() and the symbol classes work on the same grammar."""
import sys
from pyformlang.cfg import CFG, Variable, Terminal, Production

S = Variable("S")
a, b = Terminal("a"), Terminal("b")
LENGTH = 1200
# S -> a^1200 | b | epsilon          language {epsilon, b, a^1200}: finite, not empty
cfg = CFG(start_symbol=S, productions={
    Production(S, [a] * LENGTH), Production(S, [b]), Production(S, [])})

bad = []
# oracle: the language is known by construction
if cfg.is_empty():
    bad.append("is_empty() is True")
if cfg.get_nullable_symbols() != {S}:
    bad.append("nullable symbols %r" % cfg.get_nullable_symbols())
try:
    if cfg.is_finite() is not True:
        bad.append("is_finite() is not True for the language {epsilon, b, a^%d}" % LENGTH)
except RecursionError as exc:
    bad.append("is_finite() raised RecursionError (body of %d terminals)" % LENGTH)
try:
    words = sorted([tuple(x.value for x in w) for w in cfg.get_words(2)])
    if words != [(), ("b",)]:
        bad.append("get_words(2) = %r, expected [(), ('b',)]" % words)
except RecursionError as exc:
    bad.append("get_words(2) raised RecursionError (body of %d terminals)" % LENGTH)

for line in bad:
    print(line)
sys.exit(1 if bad else 0)
