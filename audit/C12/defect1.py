"""C12 defect 1: a terminal whose value is the string 'epsilon' is confused with
the Epsilon object by the generating/nullable computation (and therefore by
is_empty, to_normal_form, get_words)."""
import sys
from pyformlang.cfg import CFG, Variable, Terminal, Production, Epsilon


def tag(obj):
    if isinstance(obj, Variable):
        return ("V", obj.value)
    if type(obj) is Epsilon:
        return ("EPS", None)
    return ("T", obj.value)


def oracle(cfg, start, n):
    """independent fixpoints over the productions of cfg"""
    prods = [(tag(p.head), tuple(tag(s) for s in p.body)) for p in cfg.productions]
    prods = [(h, tuple(s for s in b if s[0] != "EPS")) for h, b in prods]
    gen = {s for _, b in prods for s in b if s[0] == "T"}
    nul = set()
    words = {}
    changed = True
    while changed:
        changed = False
        for h, b in prods:
            if h not in gen and all(s in gen for s in b):
                gen.add(h); changed = True
            if h not in nul and all(s in nul for s in b):
                nul.add(h); changed = True
            cur = {()}
            for s in b:
                opts = {(s,)} if s[0] == "T" else words.get(s, set())
                cur = {u + v for u in cur for v in opts if len(u + v) <= n}
            if not cur <= words.setdefault(h, set()):
                words[h] |= cur; changed = True
    return gen, nul, words.get(start, set())


S, X = Variable("S"), Variable("X")
a, b, eps_t = Terminal("a"), Terminal("b"), Terminal("epsilon")
bad = []

# grammar 1:  S -> epsilon a | b     (language {epsilon a, b}); also readable from text
g1 = CFG(start_symbol=S, productions={Production(S, [eps_t, a]), Production(S, [b])})
g1_text = CFG.from_text('S -> "TER:epsilon" a | b')
# grammar 2:  S -> epsilon           (language {epsilon}, one word of length 1, S not nullable)
g2 = CFG(start_symbol=S, productions={Production(S, [eps_t])})
# grammar 3:  S -> epsilon X, X -> X a   (X derives nothing: empty language)
g3 = CFG(start_symbol=S, productions={Production(S, [eps_t, X]), Production(X, [X, a])})

for name, g in [("g1", g1), ("g1_text", g1_text), ("g2", g2), ("g3", g3)]:
    ogen, onul, owords = oracle(g, ("V", "S"), 3)
    gen = {tag(x) for x in g.get_generating_symbols()}
    nul = {tag(x) for x in g.get_nullable_symbols()}
    words = [tuple(tag(x) for x in w) for w in g.get_words(3)]
    if gen != ogen:
        bad.append("%s: generating symbols %r, expected %r" % (name, sorted(gen), sorted(ogen)))
    if nul != onul:
        bad.append("%s: nullable symbols %r, expected %r" % (name, sorted(nul), sorted(onul)))
    if g.is_empty() != (("V", "S") not in ogen):
        bad.append("%s: is_empty() = %r, expected %r" % (name, g.is_empty(), ("V", "S") not in ogen))
    if sorted(words) != sorted(owords):
        bad.append("%s: get_words(3) = %r, expected %r" % (name, sorted(words), sorted(owords)))

for line in bad:
    print(line)
sys.exit(1 if bad else 0)
