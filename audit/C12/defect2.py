"""C12 defect 2: get_reachable_symbols() of a grammar without start symbol
returns {None}: an object that is not a symbol of the grammar, while no symbol
occurs in a sentential form derivable from a (missing) start symbol."""
import sys
from pyformlang.cfg import CFG, Variable, Terminal, Production

S, A = Variable("S"), Variable("A")
a = Terminal("a")


def oracle_reachable(cfg):
    if cfg.start_symbol is None:
        return set()
    reach = {cfg.start_symbol}
    changed = True
    while changed:
        changed = False
        for prod in cfg.productions:
            if prod.head in reach:
                for symbol in prod.body:
                    if symbol not in reach:
                        reach.add(symbol)
                        changed = True
    return reach


bad = []
grammars = {
    "CFG()": CFG(),
    "no start, S -> A a, A -> a": CFG(productions={Production(S, [A, a]), Production(A, [a])}),
    "union of two start-less grammars": CFG().union(CFG()),  # sanity: has a start symbol
    "start S, S -> A a": CFG(start_symbol=S, productions={Production(S, [A, a])}),
}
for name, cfg in grammars.items():
    got = cfg.get_reachable_symbols()
    expected = oracle_reachable(cfg)
    symbols = set(cfg.variables) | set(cfg.terminals)
    strangers = [x for x in got if x not in symbols]
    if strangers:
        bad.append("%s: get_reachable_symbols() contains %r, which is neither a variable "
                   "nor a terminal of the grammar" % (name, strangers))
    if got != expected:
        bad.append("%s: get_reachable_symbols() = %r, expected %r" % (name, got, expected))
for line in bad:
    print(line)
sys.exit(1 if bad else 0)
