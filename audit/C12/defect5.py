"""C12 defect 5: CFG(productions=<one-shot iterable>) loses all productions.
The constructor is annotated `productions: Iterable[Production]`; it walks the
iterable once to collect variables and terminals and then keeps the exhausted
iterator as its production store, so the grammar "generates nothing"."""
import sys
from pyformlang.cfg import CFG, Variable, Terminal, Production

S, A = Variable("S"), Variable("A")
a, b = Terminal("a"), Terminal("b")


def rules():
    # S -> A b | a ; A -> a | epsilon      language {b, ab, a}
    return [Production(S, [A, b]), Production(S, [a]), Production(A, [a]), Production(A, [])]


def answers(cfg):
    res = {}
    for name, fun in [
            ("n_productions", lambda: len(list(cfg.productions))),
            ("generating", lambda: set(cfg.get_generating_symbols())),
            ("nullable", lambda: set(cfg.get_nullable_symbols())),
            ("reachable", lambda: set(cfg.get_reachable_symbols())),
            ("is_empty", cfg.is_empty),
            ("is_finite", cfg.is_finite),
            ("words", lambda: sorted([tuple(x.value for x in w) for w in cfg.get_words(3)]))]:
        try:
            res[name] = fun()
        except Exception as exc:  # pylint: disable=broad-except
            res[name] = "raised " + repr(exc)
    return res


expected = answers(CFG(start_symbol=S, productions=set(rules())))   # same rules as a set
bad = []
for name, iterable in [("generator expression", (p for p in rules())),
                       ("iter(list)", iter(rules())),
                       ("filter object", filter(None, rules()))]:
    got = answers(CFG(start_symbol=S, productions=iterable))
    if got != expected:
        bad.append("productions given as %s:\n  got      %r\n  expected %r" % (name, got, expected))
for line in bad:
    print(line)
sys.exit(1 if bad else 0)
