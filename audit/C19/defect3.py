"""C19 defect 3: DeterministicFiniteAutomaton.to_deterministic() returns the
automaton itself, so mutating the result of the conversion changes the source.

Run: PYTHONPATH=<checkout> /venv/bin/python defect3.py
"""
import itertools
import sys

from pyformlang.finite_automaton import DeterministicFiniteAutomaton

ALPHABET = ["a", "b"]
WORDS = [list(w) for n in range(4) for w in itertools.product(ALPHABET, repeat=n)]

# The automaton under test, as plain data: a b* (start 0, final 1)
START = 0
FINALS = {1}
DELTA = {(0, "a"): 1, (1, "b"): 1}


def oracle_accepts(word):
    """Independent simulation of the DFA described by the plain data."""
    state = START
    for symbol in word:
        if (state, symbol) not in DELTA:
            return False
        state = DELTA[(state, symbol)]
    return state in FINALS


def build():
    dfa = DeterministicFiniteAutomaton()
    dfa.add_start_state(START)
    for state in FINALS:
        dfa.add_final_state(state)
    for (s_from, symbol), s_to in DELTA.items():
        dfa.add_transition(s_from, symbol, s_to)
    return dfa


def describe(dfa):
    return (sorted(str(x) for x in dfa.states),
            sorted(str(x) for x in dfa.start_states),
            sorted(str(x) for x in dfa.final_states),
            sorted(str(x) for x in dfa.symbols),
            sorted((str(k), sorted((str(a), str(b)) for a, b in v.items()))
                   for k, v in dfa.to_dict().items()))


def main():
    dfa = build()
    before = describe(dfa)
    converted = dfa.to_deterministic()
    # Work on the object returned by the conversion, only with the public API
    converted.add_final_state(0)
    converted.add_transition(1, "a", 0)
    converted.add_transition(0, "b", 2)

    problems = []
    after = describe(dfa)
    if after != before:
        problems.append("structure of the source DFA changed:\n    before %s\n"
                        "    after  %s" % (before, after))
    wrong = [w for w in WORDS if dfa.accepts(w) != oracle_accepts(w)]
    if wrong:
        problems.append("source DFA now answers accepts() wrongly on %d of %d "
                        "words, e.g. %s: got %s, expected %s"
                        % (len(wrong), len(WORDS), wrong[0],
                           dfa.accepts(wrong[0]), oracle_accepts(wrong[0])))
    if problems:
        print("DEFECT: mutating dfa.to_deterministic() changed dfa "
              "(same object returned: %s)" % (converted is dfa))
        for problem in problems:
            print("  - " + problem)
        return 1
    print("OK: the DFA is not affected by mutations of to_deterministic()")
    return 0


if __name__ == "__main__":
    sys.exit(main())
