"""C19 defect 4: calling an (epsilon-)NFA, automaton(state, symbol), returns
the very set of target states the transition function works on.  A caller
that combines two such answers in place changes the automaton.

Run: PYTHONPATH=<checkout> /venv/bin/python defect4.py
"""
import itertools
import sys

from pyformlang.finite_automaton import (EpsilonNFA,
                                         NondeterministicFiniteAutomaton)

ALPHABET = ["a", "b"]
WORDS = [list(w) for n in range(4) for w in itertools.product(ALPHABET, repeat=n)]

# 0 -a-> 1, 0 -b-> 2, 2 -b-> 1 ; start 0 ; final 1      language {a, bb}
START = {0}
FINALS = {1}
EDGES = {(0, "a", 1), (0, "b", 2), (2, "b", 1)}


def oracle_accepts(word):
    current = set(START)
    for symbol in word:
        current = {t for (s, x, t) in EDGES if s in current and x == symbol}
    return bool(current & FINALS)


def build(cls):
    automaton = cls()
    for state in START:
        automaton.add_start_state(state)
    for state in FINALS:
        automaton.add_final_state(state)
    for s_from, symbol, s_to in EDGES:
        automaton.add_transition(s_from, symbol, s_to)
    return automaton


def edges_of(automaton):
    return {(s.value, x.value, t.value)
            for s, by_symbol in automaton.to_dict().items()
            for x, targets in by_symbol.items() for t in targets}


def main():
    failed = False
    for cls in (EpsilonNFA, NondeterministicFiniteAutomaton):
        automaton = build(cls)
        # "Which states can follow state 0?"  Two queries, merged in place
        successors = automaton(0, "a")
        try:
            successors |= automaton(0, "b")
        except TypeError:
            pass  # an immutable answer is fine as well
        answer = {s.value for s in successors}
        edges = edges_of(automaton)
        wrong = [w for w in WORDS if automaton.accepts(w) != oracle_accepts(w)]
        if edges != EDGES or wrong:
            failed = True
            print("DEFECT (%s): after merging automaton(0,'a') and "
                  "automaton(0,'b') (= %s) in the caller:" % (cls.__name__,
                                                             sorted(answer)))
            print("  - new transitions in the automaton: %s"
                  % sorted(edges - EDGES))
            for word in wrong[:1]:
                print("  - accepts() wrong on %d of %d words, e.g. %s: got %s,"
                      " expected %s" % (len(wrong), len(WORDS), word,
                                        automaton.accepts(word),
                                        oracle_accepts(word)))
    if not failed:
        print("OK")
    return 1 if failed else 0


if __name__ == "__main__":
    sys.exit(main())
