"""C19 defect 5: CFG.get_words() and FST.translate() yield lists they keep on
using to build their later answers.  A consumer that edits a word it received
(here: appends an end marker) corrupts the words produced afterwards.

Run: PYTHONPATH=<checkout> /venv/bin/python defect5.py
"""
import sys

from pyformlang.cfg import CFG, Variable, Terminal, Production
from pyformlang.fst import FST

MARK = "<end>"

# ---------------------------------------------------------------- grammar
# S -> a S b | a b            language a^n b^n, n >= 1
PRODUCTIONS = [("S", ["a", "S", "b"]), ("S", ["a", "b"])]
VARIABLES = {"S"}
MAX_LEN = 6


def oracle_words():
    words, seen, todo = set(), set(), [("S",)]
    while todo:
        form = todo.pop()
        if form in seen or len(form) > MAX_LEN + 1:
            continue
        seen.add(form)
        idx = next((i for i, x in enumerate(form) if x in VARIABLES), None)
        if idx is None:
            if len(form) <= MAX_LEN:
                words.add(form)
            continue
        for head, body in PRODUCTIONS:
            if head == form[idx]:
                todo.append(form[:idx] + tuple(body) + form[idx + 1:])
    return words


def value(symbol):
    return getattr(symbol, "value", symbol)


def check_get_words():
    productions = {
        Production(Variable(h), [Variable(x) if x in VARIABLES else Terminal(x)
                                 for x in body]) for h, body in PRODUCTIONS}
    grammar = CFG(start_symbol=Variable("S"), productions=productions)
    received = set()
    for word in grammar.get_words(MAX_LEN):
        received.add(tuple(value(x) for x in word))   # what was answered
        word.append(MARK)                             # caller edits ITS word
    expected = oracle_words()
    if received != expected:
        print("DEFECT in CFG.get_words(%d): expected %s" % (MAX_LEN,
                                                           sorted(expected)))
        print("                          got      %s" % sorted(received))
        return False
    return True


# ------------------------------------------------------------- transducer
# 0 -a/x-> 1, 1 -eps/y-> 2, 2 -eps/z-> 3 ; start 0 ; final 1, 2, 3
START = {0}
FINALS = {1, 2, 3}
DELTA = [(0, "a", 1, ["x"]), (1, "epsilon", 2, ["y"]), (2, "epsilon", 3, ["z"])]


def oracle_translate(word, max_out=6):
    results, seen = set(), set()
    todo = [(tuple(word), (), s) for s in START]
    while todo:
        conf = todo.pop()
        if conf in seen or len(conf[1]) > max_out:
            continue
        seen.add(conf)
        remaining, out, state = conf
        if not remaining and state in FINALS:
            results.add(out)
        for s_from, symbol, s_to, output in DELTA:
            if s_from != state:
                continue
            if symbol == "epsilon":
                todo.append((remaining, out + tuple(output), s_to))
            elif remaining and remaining[0] == symbol:
                todo.append((remaining[1:], out + tuple(output), s_to))
    return results


def check_translate():
    fst = FST()
    for state in START:
        fst.add_start_state(state)
    for state in FINALS:
        fst.add_final_state(state)
    for s_from, symbol, s_to, output in DELTA:
        fst.add_transition(s_from, symbol, s_to, list(output))
    received = set()
    for output in fst.translate(["a"]):
        received.add(tuple(output))
        output.append(MARK)
    expected = oracle_translate(["a"])
    if received != expected:
        print("DEFECT in FST.translate(['a']): expected %s" % sorted(expected))
        print("                                got      %s" % sorted(received))
        return False
    return True


def main():
    ok_words = check_get_words()
    ok_translate = check_translate()
    if ok_words and ok_translate:
        print("OK")
        return 0
    return 1


if __name__ == "__main__":
    sys.exit(main())
