"""C19 defect 2: CFG hands out its internal caches.  The sets returned by
get_generating_symbols() / get_nullable_symbols() and the grammar returned by
to_normal_form() are the objects the CFG keeps using, so changing a returned
object changes what the source grammar answers afterwards.

Run: PYTHONPATH=<checkout> /venv/bin/python defect2.py
"""
import itertools
import sys

from pyformlang.cfg import CFG, Variable, Terminal, Production

# S -> A b,  A -> a A | epsilon        (language a* b)
PRODUCTIONS = [("S", ["A", "b"]), ("A", ["a", "A"]), ("A", [])]
VARIABLES = {"S", "A"}
ALPHABET = ["a", "b"]
MAX_LEN = 4
WORDS = [list(w) for n in range(MAX_LEN + 1)
         for w in itertools.product(ALPHABET, repeat=n)]


def oracle_language():
    """Words up to MAX_LEN derived from S: exhaustive leftmost derivations."""
    words, seen, todo = set(), set(), [("S",)]
    while todo:
        form = todo.pop()
        if form in seen:
            continue
        seen.add(form)
        n_terminals = sum(1 for x in form if x not in VARIABLES)
        if n_terminals > MAX_LEN or len(form) > MAX_LEN + 3:
            continue
        idx = next((i for i, x in enumerate(form) if x in VARIABLES), None)
        if idx is None:
            words.add(form)
            continue
        for head, body in PRODUCTIONS:
            if head == form[idx]:
                todo.append(form[:idx] + tuple(body) + form[idx + 1:])
    return words


def build():
    productions = {
        Production(Variable(head),
                   [Variable(x) if x in VARIABLES else Terminal(x)
                    for x in body])
        for head, body in PRODUCTIONS}
    return CFG(start_symbol=Variable("S"), productions=productions)


def try_clear(collection):
    """Empty a returned collection if it can be changed at all."""
    try:
        collection.clear()
    except (AttributeError, TypeError):
        pass  # an immutable result is fine as well


def check(label, grammar, expected, problems):
    got = {tuple(w) for w in WORDS if grammar.contains(w)}
    if got != expected:
        problems.append("%s: contains() is wrong on %d words, e.g. %s"
                        % (label, len(got ^ expected),
                           sorted(got ^ expected)[0]))
    if grammar.is_empty() != (not expected):
        problems.append("%s: is_empty() says %s" % (label, grammar.is_empty()))
    words = {tuple(x.value for x in w) for w in grammar.get_words(MAX_LEN)}
    if words != expected:
        problems.append("%s: get_words(%d) is wrong on %d words"
                        % (label, MAX_LEN, len(words ^ expected)))


def main():
    expected = oracle_language()
    problems = []
    check("fresh grammar", build(), expected, problems)

    grammar = build()
    generating = grammar.get_generating_symbols()
    try_clear(generating)           # the caller empties ITS result
    check("after changing the set returned by get_generating_symbols()",
          grammar, expected, problems)

    grammar = build()
    nullable = grammar.get_nullable_symbols()
    try_clear(nullable)
    check("after changing the set returned by get_nullable_symbols()",
          grammar, expected, problems)

    grammar = build()
    normal_form = grammar.to_normal_form()
    try_clear(normal_form.productions)  # work on the converted grammar
    try_clear(normal_form.variables)
    check("after changing the grammar returned by to_normal_form()",
          grammar, expected, problems)

    if problems:
        print("DEFECT: objects returned by a CFG are its own caches "
              "(expected language up to length %d: %d words)"
              % (MAX_LEN, len(expected)))
        for problem in problems:
            print("  - " + problem)
        return 1
    print("OK")
    return 0


if __name__ == "__main__":
    sys.exit(main())
