"""C19 defect 1: IndexedGrammar.is_empty() answers from marks cached by an
earlier is_empty() call, although the rules were changed in between with the
public Rules.remove_production().  The answer depends on the call history.

Run: PYTHONPATH=<checkout> /venv/bin/python defect1.py
"""
import itertools
import sys

from pyformlang.indexed_grammar import (IndexedGrammar, Rules, ProductionRule,
                                        ConsumptionRule, EndRule,
                                        DuplicationRule)

# Rules as plain data
#   ("P", A, B, f): A[s] -> B[f s]      ("C", f, A, B): A[f s] -> B[s]
#   ("E", A, a)   : A[s] -> a           ("D", A, B, C): A[s] -> B[s] C[s]
RULES = [("P", "S", "A", "f"), ("C", "f", "A", "B"), ("E", "B", "b")]
REMOVED = ("P", "S", "A", "f")
MAX_STACK = 4


def oracle_is_empty(rules, start="S"):
    """Least fixpoint of 'the configuration (non terminal, stack) derives a
    terminal word', on stacks of bounded depth (enough for these rules)."""
    indexes = sorted({r[3] for r in rules if r[0] == "P"} |
                     {r[1] for r in rules if r[0] == "C"})
    stacks = [tuple(s) for n in range(MAX_STACK + 1)
              for s in itertools.product(indexes, repeat=n)]
    good = set()
    changed = True
    while changed:
        changed = False
        for stack in stacks:
            for rule in rules:
                if rule[0] == "E":
                    conf, fine = (rule[1], stack), True
                elif rule[0] == "P":
                    conf = (rule[1], stack)
                    fine = (rule[2], (rule[3],) + stack) in good
                elif rule[0] == "C":
                    conf = (rule[2], (rule[1],) + stack)
                    fine = (rule[3], stack) in good
                else:
                    conf = (rule[1], stack)
                    fine = (rule[2], stack) in good and (rule[3], stack) in good
                if fine and conf not in good and len(conf[1]) <= MAX_STACK:
                    good.add(conf)
                    changed = True
    return (start, ()) not in good


def to_rule(rule):
    kind = {"P": ProductionRule, "C": ConsumptionRule, "E": EndRule,
            "D": DuplicationRule}[rule[0]]
    return kind(*rule[1:])


def scenario(query_before):
    """Build the grammar, optionally ask is_empty(), remove a production with
    the public API, ask is_empty()."""
    rules = Rules([to_rule(r) for r in RULES], 0)
    grammar = IndexedGrammar(rules)
    first = grammar.is_empty() if query_before else None
    grammar.rules.remove_production(*REMOVED[1:])
    return first, grammar.is_empty()


def main():
    expected_before = oracle_is_empty(RULES)
    expected_after = oracle_is_empty([r for r in RULES if r != REMOVED])
    first, with_history = scenario(True)
    _, without_history = scenario(False)
    print("oracle   : is_empty before removal %s, after removal %s"
          % (expected_before, expected_after))
    print("library  : is_empty before removal %s" % first)
    print("library  : is_empty after removal, is_empty() was asked before: %s"
          % with_history)
    print("library  : is_empty after removal, nothing asked before       : %s"
          % without_history)
    if first != expected_before or with_history != expected_after or \
            without_history != expected_after:
        print("DEFECT: the answer of is_empty() depends on an earlier call "
              "(stale marks), expected %s after the removal" % expected_after)
        return 1
    print("OK")
    return 0


if __name__ == "__main__":
    sys.exit(main())
