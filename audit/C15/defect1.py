"""FCFG.get_parse_tree hands out a tree for a NON-member when the grammar has
a variable called "Gamma" (the name of the parser's internal dummy rule).

Run: PYTHONPATH=<checkout> /venv/bin/python defect1.py   (exit 1 = defect present)
"""
import itertools
import sys

from pyformlang.cfg import Terminal, Variable
from pyformlang.cfg.cfg import NotParsableException
from pyformlang.fcfg import FCFG

TEXT = """
S -> Gamma a | c
Gamma -> b
"""
# the same grammar as plain data, for the oracle
RULES = [("S", ["Gamma", "a"]), ("S", ["c"]), ("Gamma", ["b"])]
VARIABLES = {"S", "Gamma"}
ALPHABET = ["a", "b", "c"]


def oracle_member(word):
    """Does S derive word?  Fixpoint over (symbol, i, j) spans."""
    n = len(word)
    table = {(word[i], i, i + 1) for i in range(n)}
    changed = True
    while changed:
        changed = False
        for head, body in RULES:
            for i in range(n + 1):
                ends = {i}
                for symbol in body:
                    ends = {j for p in ends for j in range(p, n + 1)
                            if (symbol, p, j) in table}
                for j in ends:
                    if (head, i, j) not in table:
                        table.add((head, i, j))
                        changed = True
    return ("S", 0, n) in table


def tree_problems(tree, word):
    problems = []
    leaves = []
    if not (isinstance(tree.value, Variable) and tree.value.value == "S"):
        problems.append("root is %r, not the start symbol" % (tree.value,))

    def visit(node):
        if isinstance(node.value, Variable):
            body = [son.value.value if isinstance(son.value, (Variable, Terminal))
                    else son.value for son in node.sons]
            kinds_ok = all(
                (isinstance(son.value, Variable) and son.value.value in VARIABLES) or
                (isinstance(son.value, Terminal) and son.value.value in ALPHABET)
                for son in node.sons)
            if not kinds_ok or (node.value.value, body) not in RULES:
                problems.append("inner node %s -> %s is not a production"
                                % (node.value.value, body))
            for son in node.sons:
                visit(son)
        elif isinstance(node.value, Terminal):
            leaves.append(node.value.value)
        else:
            problems.append("node value %r is not a grammar symbol"
                            % (node.value,))
            for son in node.sons:
                visit(son)
    visit(tree)
    if leaves != list(word):
        problems.append("leaves spell %r, not %r" % (leaves, list(word)))
    return problems


def main():
    fcfg = FCFG.from_text(TEXT)
    bad = 0
    for length in range(0, 5):
        for word in itertools.product(ALPHABET, repeat=length):
            word = list(word)
            expected = oracle_member(word)
            try:
                tree = fcfg.get_parse_tree(word)
            except NotParsableException:
                tree = None
            if tree is None:
                if expected:
                    print("member refused:", word)
                    bad += 1
                continue
            problems = tree_problems(tree, word)
            if not expected:
                problems.insert(0, "word is NOT in the language but a tree "
                                   "was returned")
            if problems:
                bad += 1
                if bad <= 4:
                    print("word", word, "->", tree)
                    for problem in problems:
                        print("    ", problem)
    if bad:
        print("%d words handled wrongly (language is exactly {c, ba})" % bad)
        return 1
    print("ok")
    return 0


if __name__ == "__main__":
    sys.exit(main())
