"""LLOneParser.get_llone_parse_tree dies with IndexError (instead of returning
the tree, or raising the documented NotParsableException for a non-member)
when the grammar has a variable called "$", the parser's end-of-input marker.

Run: PYTHONPATH=<checkout> /venv/bin/python defect4.py   (exit 1 = defect present)
"""
import itertools
import sys

from pyformlang.cfg import CFG, Production, Terminal, Variable
from pyformlang.cfg.cfg import NotParsableException
from pyformlang.cfg.llone_parser import LLOneParser

# (start, rules); upper-case names and "$" are variables, the rest terminals
GRAMMARS = [
    ("S", [("S", ["a", "$"]), ("$", ["b"]), ("$", [])]),   # {a, ab}, LL(1)
    ("S", [("S", ["a", "$"]), ("$", ["b"])]),              # {ab}, LL(1)
    ("$", [("$", ["a", "$"]), ("$", [])]),                 # a*, LL(1)
]
ALPHABET = ["a", "b"]


def is_variable(name):
    return name == "$" or name[0].isupper()


def to_object(name):
    return Variable(name) if is_variable(name) else Terminal(name)


def oracle_member(start, rules, word):
    n = len(word)
    table = {(word[i], i, i + 1) for i in range(n)}
    changed = True
    while changed:
        changed = False
        for head, body in rules:
            for i in range(n + 1):
                ends = {i}
                for symbol in body:
                    ends = {j for p in ends for j in range(p, n + 1)
                            if (symbol, p, j) in table}
                for j in ends:
                    if (head, i, j) not in table:
                        table.add((head, i, j))
                        changed = True
    return (start, 0, n) in table


def tree_problems(tree, start, rules, word):
    problems, leaves = [], []
    if not (isinstance(tree.value, Variable) and tree.value.value == start):
        problems.append("root is %r" % (tree.value,))

    def visit(node):
        if isinstance(node.value, Variable):
            body = [son.value.value for son in node.sons]
            kinds = all(isinstance(son.value, Variable) == is_variable(
                son.value.value) for son in node.sons)
            if not kinds or (node.value.value, body) not in rules:
                problems.append("%s -> %s is not a production"
                                % (node.value.value, body))
            for son in node.sons:
                visit(son)
        else:
            leaves.append(node.value.value)
    visit(tree)
    if leaves != list(word):
        problems.append("leaves spell %r" % (leaves,))
    return problems


def main():
    bad = 0
    for start, rules in GRAMMARS:
        cfg = CFG(start_symbol=Variable(start),
                  productions={Production(to_object(head),
                                          [to_object(x) for x in body])
                               for head, body in rules})
        parser = LLOneParser(cfg)
        assert parser.is_llone_parsable()
        for length in range(0, 4):
            for word in itertools.product(ALPHABET, repeat=length):
                word = list(word)
                expected = oracle_member(start, rules, word)
                try:
                    tree = parser.get_llone_parse_tree(word)
                    outcome = "tree"
                except NotParsableException:
                    outcome = "refused"
                except Exception as exc:  # pylint: disable=broad-except
                    outcome = "raised %r" % (exc,)
                wrong = []
                if outcome == "tree":
                    wrong = tree_problems(tree, start, rules, word)
                    if not expected:
                        wrong.append("tree for a non-member")
                elif outcome == "refused":
                    if expected:
                        wrong.append("member of an LL(1) grammar refused")
                else:
                    wrong.append("%s (word is %s member)"
                                 % (outcome, "a" if expected else "NOT a"))
                if wrong:
                    bad += 1
                    if bad <= 6:
                        print("grammar %s (start %s), word %r: %s"
                              % (rules, start, word, "; ".join(wrong)))
    if bad:
        print("%d words handled wrongly" % bad)
        return 1
    print("ok")
    return 0


if __name__ == "__main__":
    sys.exit(main())
