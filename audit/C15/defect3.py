"""FCFG.from_text attaches the feature constraints of an alternative (after "|")
to the wrong body positions, so FCFG.get_parse_tree returns a tree for a word
the written grammar does not generate (and refuses words it does generate).

Run: PYTHONPATH=<checkout> /venv/bin/python defect3.py   (exit 1 = defect present)
"""
import itertools
import sys

from pyformlang.cfg.cfg import NotParsableException
from pyformlang.fcfg import FCFG

# Each line of the grammar: head, head spec, list of alternatives; an
# alternative is a list of (symbol, spec).  Upper case = variable.
LINES = [
    ("S", {}, [[("A", {})], [("B", {"F": "pl"})]]),
    ("A", {}, [[("a", {})]]),
    ("B", {"F": "sg"}, [[("b", {})]]),
    ("B", {"F": "pl"}, [[("c", {})]]),
]
ALPHABET = ["a", "b", "c"]
# the same grammar with one rule per alternative, for the oracle
RULES = [(head, hspec, body) for head, hspec, alts in LINES for body in alts]


def spec_text(spec):
    if not spec:
        return ""
    return "[" + ",".join(
        "%s=%s" % (k, v if isinstance(v, str) else spec_text(v))
        for k, v in spec.items()) + "]"


def body_text(body):
    return " ".join(sym + spec_text(spec) for sym, spec in body)


def text_with_bars():
    return "\n".join(head + spec_text(hspec) + " -> " +
                     " | ".join(body_text(body) for body in alts)
                     for head, hspec, alts in LINES)


def text_one_rule_per_line():
    return "\n".join(head + spec_text(hspec) + " -> " + body_text(body)
                     for head, hspec, body in RULES)


class Clash(Exception):
    pass


class Graph:
    """Textbook feature-graph unification (union-find): two atoms must be
    equal, an atom never unifies with a structure that has features."""

    def __init__(self):
        self.parent, self.atom, self.feats = [], [], []

    def new(self, atom=None):
        self.parent.append(len(self.parent))
        self.atom.append(atom)
        self.feats.append({})
        return len(self.parent) - 1

    def find(self, node):
        while self.parent[node] != node:
            node = self.parent[node]
        return node

    def unify(self, one, two):
        one, two = self.find(one), self.find(two)
        if one == two:
            return
        a_one, a_two = self.atom[one], self.atom[two]
        if a_one is not None and a_two is not None and a_one != a_two:
            raise Clash()
        if (a_one is not None and self.feats[two]) or \
                (a_two is not None and self.feats[one]):
            raise Clash()
        self.parent[two] = one
        if a_one is None:
            self.atom[one] = a_two
        moved, self.feats[two] = self.feats[two], {}
        for feature, child in moved.items():
            if feature in self.feats[one]:
                self.unify(self.feats[one][feature], child)
                one = self.find(one)
            else:
                self.feats[one][feature] = child

    def build(self, spec, variables):
        node = self.new()
        for feature, value in spec.items():
            if isinstance(value, dict):
                child = self.build(value, variables)
            elif value.startswith("?"):
                child = variables.setdefault(value, None)
                if child is None:
                    child = variables[value] = self.new()
            else:
                child = self.new(value)
            self.feats[node][feature] = child
        return node


def trees(rules, symbol, word, i, j):
    """All skeleton trees (rule index, children) of symbol over word[i:j];
    the grammars above have no empty and no unit-cycle productions."""
    for index, (head, _, body) in enumerate(rules):
        if head == symbol:
            for children in splits(rules, body, 0, word, i, j):
                yield (index, children)


def splits(rules, body, k, word, i, j):
    if k == len(body):
        if i == j:
            yield []
        return
    symbol = body[k][0]
    if not symbol[0].isupper():
        if i < j and word[i] == symbol:
            for rest in splits(rules, body, k + 1, word, i + 1, j):
                yield [symbol] + rest
        return
    for mid in range(i + 1, j + 1 - (len(body) - k - 1)):
        for tree in trees(rules, symbol, word, i, mid):
            for rest in splits(rules, body, k + 1, word, mid, j):
                yield [tree] + rest


def consistent(rules, tree):
    graph = Graph()

    def visit(node, slot):
        index, children = node
        _, hspec, body = rules[index]
        variables = {}
        graph.unify(slot, graph.build(hspec, variables))
        for (_, spec), child in zip(body, children):
            if isinstance(child, tuple):
                child_slot = graph.new()
                graph.unify(child_slot, graph.build(spec, variables))
                visit(child, child_slot)
    try:
        visit(tree, graph.new())
    except Clash:
        return False
    return True


def oracle_member(rules, word):
    return any(consistent(rules, tree)
               for tree in trees(rules, "S", word, 0, len(word)))


def main():
    bad = 0
    for label, text in (("one rule per line", text_one_rule_per_line()),
                        ("alternatives with |", text_with_bars())):
        fcfg = FCFG.from_text(text)
        for length in range(1, 3):
            for word in itertools.product(ALPHABET, repeat=length):
                word = list(word)
                expected = oracle_member(RULES, word)
                try:
                    tree = fcfg.get_parse_tree(word)
                except NotParsableException:
                    tree = None
                if (tree is not None) != expected:
                    bad += 1
                    print("grammar (%s):\n%s" % (label, text))
                    print("word %r: in the language: %s, get_parse_tree "
                          "returned: %s\n" % (word, expected, tree))
    if bad:
        print("%d wrong answers" % bad)
        return 1
    print("ok")
    return 0


if __name__ == "__main__":
    sys.exit(main())
