"""A terminal whose text is "epsilon" (CFG.from_text supports it: "TER:epsilon")
is silently deleted from the word when the word is given as Terminal objects,
so RecursiveDecentParser.get_parse_tree and FCFG.get_parse_tree return a tree
whose leaves do not spell the word (tree for a non-member), and give a
different answer for the same word spelled with plain strings.

Run: PYTHONPATH=<checkout> /venv/bin/python defect5.py   (exit 1 = defect present)
"""
import itertools
import sys

from pyformlang.cfg import CFG, Terminal, Variable
from pyformlang.cfg.cfg import NotParsableException
from pyformlang.cfg.recursive_decent_parser import RecursiveDecentParser
from pyformlang.fcfg import FCFG

TEXT = 'S -> "TER:epsilon" b | a'
RULES = [("S", ["epsilon", "b"]), ("S", ["a"])]       # language {epsilon b, a}
ALPHABET = ["epsilon", "a", "b"]


def oracle_member(word):
    return any(head == "S" and body == list(word) for head, body in RULES)


def tree_problems(tree, word):
    problems, leaves = [], []
    if not (isinstance(tree.value, Variable) and tree.value.value == "S"):
        problems.append("root is %r" % (tree.value,))

    def visit(node):
        if isinstance(node.value, Variable):
            body = [son.value.value for son in node.sons]
            if (node.value.value, body) not in RULES or \
                    not all(isinstance(son.value, Terminal)
                            for son in node.sons):
                problems.append("%s -> %s is not a production"
                                % (node.value.value, body))
            for son in node.sons:
                visit(son)
        else:
            leaves.append(node.value.value)
    visit(tree)
    if leaves != list(word):
        problems.append("leaves spell %r, the word is %r"
                        % (leaves, list(word)))
    return problems


def main():
    cfg = CFG.from_text(TEXT)
    assert Terminal("epsilon") in cfg.terminals and len(cfg.productions) == 2
    parsers = [
        ("RecursiveDecentParser", RecursiveDecentParser(cfg).get_parse_tree),
        ("FCFG", FCFG.from_text(TEXT).get_parse_tree),
    ]
    bad = 0
    for length in range(1, 4):
        for names in itertools.product(ALPHABET, repeat=length):
            expected = oracle_member(names)
            for spelling, word in (("Terminal objects",
                                    [Terminal(x) for x in names]),
                                   ("strings", list(names))):
                for label, parse in parsers:
                    try:
                        tree = parse(word)
                    except NotParsableException:
                        tree = None
                    wrong = []
                    if tree is not None:
                        wrong = tree_problems(tree, names)
                        if not expected:
                            wrong.append("tree for a non-member")
                    elif expected:
                        wrong.append("member refused")
                    if wrong:
                        bad += 1
                        if bad <= 6:
                            print("%s, word %r given as %s: %s"
                                  % (label, list(names), spelling,
                                     "; ".join(wrong)))
    if bad:
        print("%d wrong answers (language is {epsilon b, a})" % bad)
        return 1
    print("ok")
    return 0


if __name__ == "__main__":
    sys.exit(main())
