"""FCFG.get_parse_tree / contains accept a NON-member when an atomic feature
value meets a complex (nested) feature value: FeatureStructure.unify lets
AGR=pl unify with AGR=[N=sg].

Run: PYTHONPATH=<checkout> /venv/bin/python defect2.py   (exit 1 = defect present)
"""
import itertools
import sys

from pyformlang.cfg.cfg import NotParsableException
from pyformlang.fcfg import FCFG

# (head, head spec, [(symbol, spec), ...]); a spec maps a feature to an atom
# ("sg"), a variable ("?x") or a nested spec (dict).  Upper case = variable.
GRAMMARS = [
    [("S", {}, [("X", {"AGR": "pl"})]),
     ("X", {"AGR": {"N": "sg"}}, [("x", {})])],
    [("S", {}, [("X", {"AGR": {"N": "sg"}})]),
     ("X", {"AGR": "pl"}, [("x", {})])],
    # the clash only shows up through a shared variable
    [("S", {}, [("X", {"AGR": "?a"}), ("Y", {"AGR": "?a"})]),
     ("X", {"AGR": {"N": "sg"}}, [("x", {})]),
     ("Y", {"AGR": "pl"}, [("y", {})]),
     ("Y", {"AGR": {"N": "sg"}}, [("z", {})])],
]
ALPHABET = ["x", "y", "z"]


def spec_text(spec):
    if not spec:
        return ""
    return "[" + ",".join(
        "%s=%s" % (k, v if isinstance(v, str) else spec_text(v))
        for k, v in spec.items()) + "]"


def grammar_text(rules):
    return "\n".join(
        head + spec_text(hspec) + " -> " +
        " ".join(sym + spec_text(spec) for sym, spec in body)
        for head, hspec, body in rules)


class Clash(Exception):
    pass


class Graph:
    """Textbook feature-graph unification (union-find): two atoms must be
    equal, an atom never unifies with a structure that has features."""

    def __init__(self):
        self.parent, self.atom, self.feats = [], [], []

    def new(self, atom=None):
        self.parent.append(len(self.parent))
        self.atom.append(atom)
        self.feats.append({})
        return len(self.parent) - 1

    def find(self, node):
        while self.parent[node] != node:
            node = self.parent[node]
        return node

    def unify(self, one, two):
        one, two = self.find(one), self.find(two)
        if one == two:
            return
        a_one, a_two = self.atom[one], self.atom[two]
        if a_one is not None and a_two is not None and a_one != a_two:
            raise Clash()
        if (a_one is not None and self.feats[two]) or \
                (a_two is not None and self.feats[one]):
            raise Clash()
        self.parent[two] = one
        if a_one is None:
            self.atom[one] = a_two
        moved, self.feats[two] = self.feats[two], {}
        for feature, child in moved.items():
            if feature in self.feats[one]:
                self.unify(self.feats[one][feature], child)
                one = self.find(one)
            else:
                self.feats[one][feature] = child

    def build(self, spec, variables):
        node = self.new()
        for feature, value in spec.items():
            if isinstance(value, dict):
                child = self.build(value, variables)
            elif value.startswith("?"):
                child = variables.setdefault(value, None)
                if child is None:
                    child = variables[value] = self.new()
            else:
                child = self.new(value)
            self.feats[node][feature] = child
        return node


def trees(rules, symbol, word, i, j):
    """All skeleton trees (rule index, children) of symbol over word[i:j];
    the grammars above have no empty and no unit-cycle productions."""
    for index, (head, _, body) in enumerate(rules):
        if head == symbol:
            for children in splits(rules, body, 0, word, i, j):
                yield (index, children)


def splits(rules, body, k, word, i, j):
    if k == len(body):
        if i == j:
            yield []
        return
    symbol = body[k][0]
    if not symbol[0].isupper():
        if i < j and word[i] == symbol:
            for rest in splits(rules, body, k + 1, word, i + 1, j):
                yield [symbol] + rest
        return
    for mid in range(i + 1, j + 1 - (len(body) - k - 1)):
        for tree in trees(rules, symbol, word, i, mid):
            for rest in splits(rules, body, k + 1, word, mid, j):
                yield [tree] + rest


def consistent(rules, tree):
    graph = Graph()

    def visit(node, slot):
        index, children = node
        _, hspec, body = rules[index]
        variables = {}
        graph.unify(slot, graph.build(hspec, variables))
        for (_, spec), child in zip(body, children):
            if isinstance(child, tuple):
                child_slot = graph.new()
                graph.unify(child_slot, graph.build(spec, variables))
                visit(child, child_slot)
    try:
        visit(tree, graph.new())
    except Clash:
        return False
    return True


def oracle_member(rules, word):
    return any(consistent(rules, tree)
               for tree in trees(rules, "S", word, 0, len(word)))


def main():
    bad = 0
    for rules in GRAMMARS:
        text = grammar_text(rules)
        fcfg = FCFG.from_text(text)
        for length in range(1, 3):
            for word in itertools.product(ALPHABET, repeat=length):
                word = list(word)
                expected = oracle_member(rules, word)
                try:
                    tree = fcfg.get_parse_tree(word)
                except NotParsableException:
                    tree = None
                if (tree is not None) != expected or \
                        fcfg.contains(word) != expected:
                    bad += 1
                    print("grammar:\n" + text)
                    print("word %r: in the language: %s, get_parse_tree "
                          "returned: %s, contains: %s\n"
                          % (word, expected, tree, fcfg.contains(word)))
    if bad:
        print("%d wrong answers" % bad)
        return 1
    print("ok")
    return 0


if __name__ == "__main__":
    sys.exit(main())
