"""C02 defect 3: an automaton built from a ready-made transition function is compared on a truncated alphabet / state set.

All five constructor arguments are optional.  The constructors register the start and final states by themselves,
but not the states and symbols used by the given transition function.  accepts() follows the transition function;
is_equivalent_to / == / minimize only look at the (empty or partial) states and input_symbols sets:
the answer is wrong when input_symbols is left out, and KeyError when states is left out.
Oracle: bounded word enumeration on the plain transition list.
"""
import itertools
import sys
import traceback

from pyformlang.finite_automaton import DeterministicFiniteAutomaton, \
    EpsilonNFA, TransitionFunction, NondeterministicTransitionFunction, \
    State, Symbol

TRANS = [(0, "a", 1), (1, "b", 2), (2, "a", 1)]   # a(ba)*b
START, FINALS = 0, {2}


def accepts(trans, start, finals, word):
    current = {start}
    for letter in word:
        current = {q for p, s, q in trans if p in current and s == letter}
    return bool(current & set(finals))


def same_language(trans0, start0, finals0, trans1, start1, finals1):
    for length in range(7):
        for word in itertools.product(["a", "b"], repeat=length):
            if accepts(trans0, start0, finals0, word) != \
                    accepts(trans1, start1, finals1, word):
                return False
    return True


def transition_function(deterministic=True):
    function = TransitionFunction() if deterministic \
        else NondeterministicTransitionFunction()
    for s_from, symbol, s_to in TRANS:
        function.add_transition(State(s_from), Symbol(symbol), State(s_to))
    return function


def reference(trans, start, finals):
    dfa = DeterministicFiniteAutomaton()
    dfa.add_start_state(start)
    for state in finals:
        dfa.add_final_state(state)
    for transition in trans:
        dfa.add_transition(*transition)
    return dfa


def main():
    candidates = {
        "DFA(transition_function, start_state, final_states)":
            lambda: DeterministicFiniteAutomaton(
                transition_function=transition_function(),
                start_state=START, final_states=FINALS),
        "DFA(states, transition_function, start_state, final_states)":
            lambda: DeterministicFiniteAutomaton(
                states={0, 1, 2},
                transition_function=transition_function(),
                start_state=START, final_states=FINALS),
        "DFA(input_symbols, transition_function, start_state, final_states)":
            lambda: DeterministicFiniteAutomaton(
                input_symbols={"a", "b"},
                transition_function=transition_function(),
                start_state=START, final_states=FINALS),
        "EpsilonNFA(transition_function, start_state, final_states)":
            lambda: EpsilonNFA(
                transition_function=transition_function(False),
                start_state={START}, final_states=FINALS),
        # complete 5-tuple: works, kept as a control
        "DFA(states, input_symbols, transition_function, start, finals)":
            lambda: DeterministicFiniteAutomaton(
                {0, 1, 2}, {"a", "b"}, transition_function(),
                START, FINALS),
    }
    same = [("x", "a", "y"), ("y", "b", "z"), ("z", "a", "y")]
    other = [("x", "a", "y"), ("y", "b", "z")]
    problems = []
    for name, make in candidates.items():
        automaton = make()
        for word in (["a", "b"], ["a", "b", "a", "b"], ["a"], []):
            if automaton.accepts(word) != accepts(TRANS, START, FINALS, word):
                problems.append("%s: accepts(%r) is wrong" % (name, word))
        for ref_trans in (same, other):
            expected = same_language(TRANS, START, FINALS,
                                     ref_trans, "x", {"z"})
            ref = reference(ref_trans, "x", {"z"})
            for way, test in (
                    ("automaton.is_equivalent_to(ref)",
                     lambda: make().is_equivalent_to(ref)),
                    ("ref.is_equivalent_to(automaton)",
                     lambda: ref.is_equivalent_to(make())),
                    ("automaton == ref", lambda: make() == ref),
                    ("ref.is_equivalent_to(automaton.minimize())",
                     lambda: ref.is_equivalent_to(make().minimize()))):
                try:
                    observed = test()
                except Exception:  # pylint: disable=broad-except
                    problems.append("%s: %s raised %s" % (
                        name, way, traceback.format_exc().splitlines()[-1]))
                    continue
                if observed != expected:
                    problems.append(
                        "%s: %s gave %r, brute force says %r (accepts() "
                        "agrees with brute force)"
                        % (name, way, observed, expected))
    for problem in problems:
        print(problem)
    if problems:
        print("DEFECT: %d checks failed" % len(problems))
        sys.exit(1)
    print("ok")


if __name__ == "__main__":
    main()
