"""C02 defect 2: an epsilon NFA whose declared alphabet contains "epsilon" cannot be compared nor minimised.

add_symbol("epsilon") (or input_symbols={"a", "epsilon"} in the constructor) stores Epsilon() in the alphabet,
because to_symbol maps the text "epsilon" to Epsilon().  add_transition keeps Epsilon() out of the alphabet, these
two entry points do not.  The determinisation behind is_equivalent_to / == / minimize then treats Epsilon() as a
letter and dies with InvalidEpsilonTransition as soon as the automaton has one epsilon transition.
Oracle: bounded word enumeration with an own epsilon-NFA simulation.
"""
import itertools
import sys
import traceback

from pyformlang.finite_automaton import EpsilonNFA, \
    DeterministicFiniteAutomaton

EPS = "epsilon"


def eclose(trans, states):
    states = set(states)
    todo = list(states)
    while todo:
        current = todo.pop()
        for s_from, symbol, s_to in trans:
            if s_from == current and symbol == EPS and s_to not in states:
                states.add(s_to)
                todo.append(s_to)
    return states


def accepts(desc, word):
    trans, starts, finals = desc
    current = eclose(trans, starts)
    for letter in word:
        current = eclose(trans, {s_to for s_from, symbol, s_to in trans
                                 if s_from in current and symbol == letter})
    return bool(current & set(finals))


def same_language(desc0, desc1, alphabet, max_len=5):
    for length in range(max_len + 1):
        for word in itertools.product(alphabet, repeat=length):
            if accepts(desc0, word) != accepts(desc1, word):
                return False
    return True


def build(desc, declare_epsilon, through_constructor=False):
    trans, starts, finals = desc
    if through_constructor and declare_epsilon:
        enfa = EpsilonNFA(input_symbols={"a", "b", "epsilon"})
    else:
        enfa = EpsilonNFA()
    for state in starts:
        enfa.add_start_state(state)
    for state in finals:
        enfa.add_final_state(state)
    for s_from, symbol, s_to in trans:
        enfa.add_transition(s_from, symbol, s_to)
    if declare_epsilon and not through_constructor:
        # the labels of the transitions are declared as the alphabet
        for _, symbol, _ in trans:
            enfa.add_symbol(symbol)
    return enfa


def main():
    # a*b, with an epsilon transition
    desc0 = ([(0, "a", 0), (0, EPS, 1), (1, "b", 2)], [0], [2])
    # the same language without epsilon transition, and another language
    desc1 = ([("p", "a", "p"), ("p", "b", "q")], ["p"], ["q"])
    desc2 = ([("p", "a", "p"), ("p", "b", "q"), ("q", "b", "q")],
             ["p"], ["q"])
    problems = []
    # sanity: without the declaration everything works
    plain = build(desc0, False)
    for through_constructor in (False, True):
        how = "constructor input_symbols" if through_constructor \
            else "add_symbol"
        for other_desc in (desc1, desc2):
            expected = same_language(desc0, other_desc, ["a", "b"])
            enfa = build(desc0, True, through_constructor)
            other = build(other_desc, False)
            tests = [
                ("enfa.is_equivalent_to(other)",
                 lambda: enfa.is_equivalent_to(other), expected),
                ("other.is_equivalent_to(enfa)",
                 lambda: other.is_equivalent_to(enfa), expected),
                ("enfa == other", lambda: enfa == other, expected),
                ("dfa.is_equivalent_to(enfa)",
                 lambda: other.to_deterministic().is_equivalent_to(enfa),
                 expected),
                ("enfa.is_equivalent_to(same enfa without declaration)",
                 lambda: enfa.is_equivalent_to(plain), True),
                ("enfa.minimize() is a DFA equivalent to other",
                 lambda: isinstance(enfa.minimize(),
                                    DeterministicFiniteAutomaton)
                 and other.is_equivalent_to(enfa.minimize()), expected),
            ]
            for name, test, wanted in tests:
                try:
                    observed = test()
                except Exception:  # pylint: disable=broad-except
                    problems.append("[%s] %s raised %s" % (
                        how, name, traceback.format_exc().splitlines()[-1]))
                    continue
                if observed != wanted:
                    problems.append("[%s] %s gave %r, brute force says %r"
                                    % (how, name, observed, wanted))
    # the automaton itself is fine: it still recognises a*b
    enfa = build(desc0, True)
    for word in (["b"], ["a", "a", "b"], ["a"], []):
        if enfa.accepts(word) != accepts(desc0, word):
            problems.append("accepts(%r) wrong" % word)
    for problem in problems:
        print(problem)
    if problems:
        print("DEFECT: 'epsilon' in the declared alphabet of an epsilon NFA "
              "breaks is_equivalent_to / == / minimize (%d checks failed)"
              % len(problems))
        sys.exit(1)
    print("ok")


if __name__ == "__main__":
    main()
