"""C02 defect 1: is_equivalent_to / == sort the outgoing transitions by the raw symbol value.

Symbols of one automaton that are not totally ordered among themselves break the comparison:
  (a) an alphabet mixing integers and strings ({0, 1, "#"} ...)  -> TypeError instead of an answer
  (b) symbols that are only partially ordered (frozensets)       -> False for two DFAs with the very same transitions
Oracle: bounded word enumeration on the plain transition tables (independent of the library).
"""
import itertools
import sys
import traceback

from pyformlang.finite_automaton import DeterministicFiniteAutomaton


def build(trans, start, finals):
    dfa = DeterministicFiniteAutomaton()
    dfa.add_start_state(start)
    for state in finals:
        dfa.add_final_state(state)
    for s_from, symbol, s_to in trans:
        dfa.add_transition(s_from, symbol, s_to)
    return dfa


def accepts(trans, start, finals, word):
    table = {(p, s): q for p, s, q in trans}
    current = start
    for symbol in word:
        if (current, symbol) not in table:
            return False
        current = table[(current, symbol)]
    return current in finals


def same_language(desc0, desc1, max_len=5):
    alphabet = []
    for trans in (desc0[0], desc1[0]):
        for _, symbol, _ in trans:
            if symbol not in alphabet:
                alphabet.append(symbol)
    for length in range(max_len + 1):
        for word in itertools.product(alphabet, repeat=length):
            if accepts(*desc0, word) != accepts(*desc1, word):
                return False
    return True


def check(name, desc0, desc1):
    expected = same_language(desc0, desc1)
    problems = []
    for left, right, way in ((desc0, desc1, "A.is_equivalent_to(B)"),
                             (desc1, desc0, "B.is_equivalent_to(A)")):
        try:
            observed = build(*left).is_equivalent_to(build(*right))
        except Exception:  # pylint: disable=broad-except
            problems.append("%s raised %s" % (
                way, traceback.format_exc().splitlines()[-1]))
            continue
        if observed != expected:
            problems.append("%s returned %r, brute force says %r"
                            % (way, observed, expected))
    try:
        observed = build(*desc0) == build(*desc1)
        if observed != expected:
            problems.append("A == B returned %r, brute force says %r"
                            % (observed, expected))
    except Exception:  # pylint: disable=broad-except
        problems.append("A == B raised %s"
                        % traceback.format_exc().splitlines()[-1])
    for problem in problems:
        print("[%s] %s" % (name, problem))
    return not problems


def main():
    good = True
    # (a) integers and strings in one alphabet; B is A with renamed states
    a_mixed = ([(0, 1, 1), (0, "a", 1), (1, 1, 0)], 0, [1])
    b_mixed = ([("p", 1, "q"), ("p", "a", "q"), ("q", 1, "p")], "p", ["q"])
    good &= check("int+str symbols, equivalent", a_mixed, b_mixed)
    c_mixed = ([("p", 1, "q"), ("p", "a", "q"), ("q", "a", "p")], "p", ["q"])
    good &= check("int+str symbols, different", a_mixed, c_mixed)
    # (b) frozenset symbols; B has the same transitions, added in another order
    s_3, s_5 = frozenset({3}), frozenset({5})
    a_fs = ([(0, s_3, 1), (0, s_5, 2), (2, s_3, 2)], 0, [1, 2])
    b_fs = ([(0, s_5, 2), (0, s_3, 1), (2, s_3, 2)], 0, [1, 2])
    good &= check("frozenset symbols, same transitions", a_fs, b_fs)
    for s_x, s_y in itertools.combinations(
            [frozenset({i}) for i in range(12)], 2):
        a_fs = ([(0, s_x, 1), (0, s_y, 2), (2, s_x, 2)], 0, [1, 2])
        b_fs = ([(0, s_y, 2), (0, s_x, 1), (2, s_x, 2)], 0, [1, 2])
        if not check("frozenset symbols %r %r" % (set(s_x), set(s_y)),
                     a_fs, b_fs):
            good = False
            break
    if not good:
        print("DEFECT: equivalence of automata depends on an ordering of "
              "the symbol values")
        sys.exit(1)
    print("ok")


if __name__ == "__main__":
    main()
