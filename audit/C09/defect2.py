"""remove_epsilon (and to_normal_form, which calls it) raise RecursionError for
a production whose body has about 1000 symbols."""
import sys
from pyformlang.cfg import CFG, Production, Variable, Terminal, Epsilon

def language(cfg, maxlen):
    """Independent oracle: all words of length <= maxlen, by least fixpoint.
    Only objects of the class Epsilon stand for the empty word."""
    prods = list(cfg.productions)
    words = {p.head: set() for p in prods}
    changed = True
    while changed:
        changed = False
        for p in prods:
            cur = {()}
            for s in p.body:
                if type(s) is Epsilon:
                    continue
                if isinstance(s, Terminal):
                    cur = {w + (s.value,) for w in cur if len(w) < maxlen}
                else:
                    sub = words.get(s, set())
                    cur = {w + v for w in cur for v in sub
                           if len(w) + len(v) <= maxlen}
                if not cur:
                    break
            if not cur <= words[p.head]:
                words[p.head] |= cur
                changed = True
    if cfg.start_symbol is None:
        return set()
    return set(words.get(cfg.start_symbol, set()))

N = 1200
S = Variable("S")
a = Terminal("a")
# S -> a^N | epsilon     (language {epsilon, a^N})
cfg = CFG(start_symbol=S,
          productions={Production(S, [a] * N), Production(S, [])})
expected = {("a",) * N}
bad = []
for name in ["remove_epsilon", "to_normal_form"]:
    try:
        res = getattr(cfg, name)()
    except RecursionError as exc:
        bad.append("%s raised RecursionError: %s" % (name, exc))
        continue
    got = language(res, N)
    if got != expected:
        bad.append("%s: wrong language (%d words)" % (name, len(got)))
    if any(not p.body for p in res.productions):
        bad.append("%s: epsilon production left" % name)
    if name == "to_normal_form" and not res.is_normal_form():
        bad.append("to_normal_form: not in normal form")
if bad:
    print("DEFECT on S -> a^%d | epsilon:" % N)
    print("\n".join(bad))
    sys.exit(1)
print("ok")
