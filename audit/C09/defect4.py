"""get_generating_symbols() and get_nullable_symbols() hand out the internal
cache set.  Ordinary set arithmetic on the returned value silently changes
what remove_useless_symbols, remove_epsilon and to_normal_form compute."""
import sys
from pyformlang.cfg import CFG, Production, Variable, Terminal, Epsilon

def language(cfg, maxlen):
    """Independent oracle: all words of length <= maxlen, by least fixpoint.
    Only objects of the class Epsilon stand for the empty word."""
    prods = list(cfg.productions)
    words = {p.head: set() for p in prods}
    changed = True
    while changed:
        changed = False
        for p in prods:
            cur = {()}
            for s in p.body:
                if type(s) is Epsilon:
                    continue
                if isinstance(s, Terminal):
                    cur = {w + (s.value,) for w in cur if len(w) < maxlen}
                else:
                    sub = words.get(s, set())
                    cur = {w + v for w in cur for v in sub
                           if len(w) + len(v) <= maxlen}
                if not cur:
                    break
            if not cur <= words[p.head]:
                words[p.head] |= cur
                changed = True
    if cfg.start_symbol is None:
        return set()
    return set(words.get(cfg.start_symbol, set()))

S, A, B = Variable("S"), Variable("A"), Variable("B")
a, b = Terminal("a"), Terminal("b")
rules = [Production(S, [A, B]), Production(A, [a]),
         Production(B, [b]), Production(B, [])]
bad = []

# 1. generating symbols
cfg = CFG(start_symbol=S, productions=set(rules))
base = language(cfg, 3)                 # {a, ab}
interesting = cfg.get_generating_symbols()
interesting -= cfg.terminals            # "only the generating variables"
got = language(cfg.remove_useless_symbols(), 3)
if got != base:
    bad.append("after `s = get_generating_symbols(); s -= cfg.terminals`: "
               "remove_useless_symbols gives %s, expected %s" % (
                   sorted(got), sorted(base)))
got = language(cfg.to_normal_form(), 3)
if got != base - {()}:
    bad.append("... and to_normal_form gives %s, expected %s" % (
        sorted(got), sorted(base - {()})))

# 2. nullable symbols
cfg = CFG(start_symbol=S, productions=set(rules))
nullable = cfg.get_nullable_symbols()
nullable &= {S}                         # "is the start symbol nullable?"
got = language(cfg.remove_epsilon(), 3)
if got != base - {()}:
    bad.append("after `n = get_nullable_symbols(); n &= {S}`: remove_epsilon "
               "gives %s, expected %s" % (sorted(got), sorted(base - {()})))
if bad:
    print("DEFECT: returned sets are the live caches:")
    print("\n".join(bad))
    sys.exit(1)
print("ok")
