"""The constructor keeps the caller's `productions` object itself
(annotated Iterable[Production]).  With a one-shot iterable (generator, map,
filter) the grammar has its symbols but an exhausted production store: the
clean-up functions return the empty language and to_normal_form raises
TypeError.  With a list, a later change of the caller's list changes the CFG."""
import sys
from pyformlang.cfg import CFG, Production, Variable, Terminal, Epsilon

def language(cfg, maxlen):
    """Independent oracle: all words of length <= maxlen, by least fixpoint.
    Only objects of the class Epsilon stand for the empty word."""
    prods = list(cfg.productions)
    words = {p.head: set() for p in prods}
    changed = True
    while changed:
        changed = False
        for p in prods:
            cur = {()}
            for s in p.body:
                if type(s) is Epsilon:
                    continue
                if isinstance(s, Terminal):
                    cur = {w + (s.value,) for w in cur if len(w) < maxlen}
                else:
                    sub = words.get(s, set())
                    cur = {w + v for w in cur for v in sub
                           if len(w) + len(v) <= maxlen}
                if not cur:
                    break
            if not cur <= words[p.head]:
                words[p.head] |= cur
                changed = True
    if cfg.start_symbol is None:
        return set()
    return set(words.get(cfg.start_symbol, set()))

S, A, B = Variable("S"), Variable("A"), Variable("B")
a, b = Terminal("a"), Terminal("b")
rules = [Production(S, [A, B]), Production(A, [a]), Production(A, [B]),
         Production(B, [b]), Production(B, [])]
reference = CFG(start_symbol=S, productions=set(rules))
base = language(reference, 4)          # {a, b, ab, bb, epsilon}
assert base == {(), ("a",), ("b",), ("a", "b"), ("b", "b")}, base

bad = []


def check(desc, cfg):
    for name in ["remove_useless_symbols", "remove_epsilon",
                 "eliminate_unit_productions", "to_normal_form"]:
        expected = base - {()} if name in ("remove_epsilon",
                                           "to_normal_form") else base
        try:
            res = getattr(cfg, name)()
            got = language(res, 4)
        except Exception as exc:  # pylint: disable=broad-except
            bad.append("%s: %s raised %r" % (desc, name, exc))
            continue
        if got != expected:
            bad.append("%s: %s gives %s, expected %s" % (
                desc, name, sorted(got), sorted(expected)))


check("generator", CFG(start_symbol=S, productions=(p for p in rules)))
check("map object", CFG(start_symbol=S, productions=map(lambda p: p, rules)))
mine = list(rules)
cfg_list = CFG(start_symbol=S, productions=mine)
mine.clear()                            # the caller reuses his own list
check("list cleared by the caller afterwards", cfg_list)
if bad:
    print("DEFECT: CFG does not own its productions:")
    print("\n".join(bad))
    sys.exit(1)
print("ok")
