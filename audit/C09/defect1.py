"""A terminal whose value is the text 'epsilon' (CFG.from_text accepts it as
"TER:epsilon") is dropped or makes its production disappear in
remove_useless_symbols, remove_epsilon and to_normal_form."""
import sys
from pyformlang.cfg import CFG, Production, Variable, Terminal, Epsilon

def language(cfg, maxlen):
    """Independent oracle: all words of length <= maxlen, by least fixpoint.
    Only objects of the class Epsilon stand for the empty word."""
    prods = list(cfg.productions)
    words = {p.head: set() for p in prods}
    changed = True
    while changed:
        changed = False
        for p in prods:
            cur = {()}
            for s in p.body:
                if type(s) is Epsilon:
                    continue
                if isinstance(s, Terminal):
                    cur = {w + (s.value,) for w in cur if len(w) < maxlen}
                else:
                    sub = words.get(s, set())
                    cur = {w + v for w in cur for v in sub
                           if len(w) + len(v) <= maxlen}
                if not cur:
                    break
            if not cur <= words[p.head]:
                words[p.head] |= cur
                changed = True
    if cfg.start_symbol is None:
        return set()
    return set(words.get(cfg.start_symbol, set()))

bad = []
S = Variable("S")
grammars = {
    'from_text: S -> "TER:epsilon" a | b':
        CFG.from_text('S -> "TER:epsilon" a | b'),
    "direct: S -> Terminal('epsilon') S | Terminal('a')":
        CFG(start_symbol=S,
            productions={Production(S, [Terminal("epsilon"), S]),
                         Production(S, [Terminal("a")])}),
    'from_text: S -> A a, A -> "TER:epsilon"':
        CFG.from_text('S -> A a\nA -> "TER:epsilon"'),
}
for desc, cfg in grammars.items():
    base = language(cfg, 3)
    for name in ["remove_useless_symbols", "remove_epsilon",
                 "eliminate_unit_productions", "to_normal_form"]:
        res = getattr(cfg, name)()
        expected = base - {()} if name in ("remove_epsilon",
                                           "to_normal_form") else base
        got = language(res, 3)
        if got != expected:
            bad.append("%s\n   %s: expected %s\n   got %s (productions %s)" % (
                desc, name, sorted(expected), sorted(got),
                list(res.productions)))
        if name == "to_normal_form" and not res.is_normal_form():
            bad.append("%s: result not in normal form" % desc)
if bad:
    print("DEFECT: a terminal named 'epsilon' is lost:")
    print("\n".join(bad))
    sys.exit(1)
print("ok")
