"""union / concatenate / kleene_star are wrong (or raise MisformedRegexError)
when a symbol contains a character that the textual Regex syntax treats as
an operator: space . + | * ( ) $ or a backslash."""
import itertools
import sys

from pyformlang.finite_automaton import EpsilonNFA, Symbol


def build(trans, starts, finals):
    enfa = EpsilonNFA()
    for s_from, symb, s_to in trans:
        enfa.add_transition(s_from, Symbol(symb), s_to)
    for state in starts:
        enfa.add_start_state(state)
    for state in finals:
        enfa.add_final_state(state)
    return enfa


def accepts(spec, word):
    """ Independent simulation (the test automata have no epsilon moves) """
    trans, starts, finals = spec
    current = set(starts)
    for char in word:
        current = {t for (s, a, t) in trans if s in current and a == char}
    return bool(current & set(finals))


def star(spec, word):
    good = [True] + [False] * len(word)
    for i in range(1, len(word) + 1):
        good[i] = any(good[j] and accepts(spec, word[j:i]) for j in range(i))
    return good[-1]


PROBLEMS = []
for sym in ["a b", "a+b", "a|b", "a.b", "a*", "(a)", "$", "(", "+", "a\\"]:
    # A = { sym , sym a } ; B = { b }
    spec_a = ([(0, sym, 1), (1, "a", 2)], [0], [1, 2])
    spec_b = ([(0, "b", 1)], [0], [1])
    alphabet = [sym, "a", "b"]
    expected = {
        "union": lambda w: accepts(spec_a, w) or accepts(spec_b, w),
        "concatenate": lambda w: any(
            accepts(spec_a, w[:i]) and accepts(spec_b, w[i:])
            for i in range(len(w) + 1)),
        "kleene_star": lambda w: star(spec_a, w),
    }
    for name, oracle in expected.items():
        enfa_a, enfa_b = build(*spec_a), build(*spec_b)
        try:
            if name == "kleene_star":
                result = enfa_a.kleene_star()
            else:
                result = getattr(enfa_a, name)(enfa_b)
        except Exception as exc:  # pylint: disable=broad-except
            PROBLEMS.append("%s with symbol %r raised %s" %
                            (name, sym, type(exc).__name__))
            continue
        for length in range(4):
            bad = [list(w) for w in itertools.product(alphabet, repeat=length)
                   if result.accepts(list(w)) != oracle(list(w))]
            if bad:
                PROBLEMS.append(
                    "%s with symbol %r: word %r expected %r, observed %r" %
                    (name, sym, bad[0], oracle(bad[0]),
                     result.accepts(bad[0])))
                break

for problem in PROBLEMS:
    print(problem)
if PROBLEMS:
    print("%d wrong results" % len(PROBLEMS))
    sys.exit(1)
print("ok")
