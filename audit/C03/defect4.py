"""An epsilon-NFA whose declared alphabet mentions "epsilon" (add_symbol or
the input_symbols argument of the constructor turn the text "epsilon" into
Epsilon() and store it among the input symbols): get_complement raises
InvalidEpsilonTransition and get_difference returns a wrong language."""
import itertools
import sys

from pyformlang.finite_automaton import EpsilonNFA

# A = { a }  :  0 -a-> 1 -epsilon-> 2, the labels were declared beforehand
LABELS = ["a", "epsilon"]
ENFA_A = EpsilonNFA(input_symbols=set(LABELS))
ENFA_A.add_transition(0, "a", 1)
ENFA_A.add_transition(1, "epsilon", 2)
ENFA_A.add_start_state(0)
ENFA_A.add_final_state(2)
# B = a*
ENFA_B = EpsilonNFA()
ENFA_B.add_transition(0, "a", 0)
ENFA_B.add_start_state(0)
ENFA_B.add_final_state(0)


def in_a(word):
    return word == ["a"]


def in_b(word):
    return all(x == "a" for x in word)


WORDS = [list(w) for n in range(4) for w in itertools.product("ab", repeat=n)]
PROBLEMS = []
# sanity: the operands are what we think they are
for word in WORDS:
    assert ENFA_A.accepts(word) == in_a(word)
    assert ENFA_B.accepts(word) == in_b(word)

CASES = [
    ("A.get_complement()", ENFA_A.get_complement,
     lambda w: in_b(w) and not in_a(w)),  # words over {a} except "a"
    ("A.get_difference(B)", lambda: ENFA_A.get_difference(ENFA_B),
     lambda w: in_a(w) and not in_b(w)),  # empty
    ("B.get_difference(A)", lambda: ENFA_B.get_difference(ENFA_A),
     lambda w: in_b(w) and not in_a(w)),
    ("A.get_intersection(B)", lambda: ENFA_A.get_intersection(ENFA_B),
     lambda w: in_a(w) and in_b(w)),
]
for name, function, oracle in CASES:
    try:
        result = function()
    except Exception as exc:  # pylint: disable=broad-except
        PROBLEMS.append("%s raised %s" % (name, type(exc).__name__))
        continue
    bad = [w for w in WORDS if result.accepts(w) != oracle(w)]
    if bad:
        PROBLEMS.append("%s: word %r expected %r, observed %r" %
                        (name, bad[0], oracle(bad[0]),
                         result.accepts(bad[0])))

for problem in PROBLEMS:
    print(problem)
if PROBLEMS:
    sys.exit(1)
print("ok")
