"""union / concatenate / kleene_star raise RecursionError on automata that
are only moderately large: a two-state automaton over 256 symbols, or an
automaton that reads one fixed word of 200 symbols."""
import sys

from pyformlang.finite_automaton import EpsilonNFA

PROBLEMS = []


def attempt(name, function):
    try:
        return function()
    except RecursionError:
        PROBLEMS.append(name + " raised RecursionError")
    return None


# 1. { c0, ..., c255 }: two states, 256 parallel transitions
WIDE = EpsilonNFA()
for i in range(256):
    WIDE.add_transition(0, "c%d" % i, 1)
WIDE.add_start_state(0)
WIDE.add_final_state(1)
OTHER = EpsilonNFA()
OTHER.add_transition(0, "x", 1)
OTHER.add_start_state(0)
OTHER.add_final_state(1)

RES = attempt("kleene_star of a 2-state automaton over 256 symbols",
              WIDE.kleene_star)
if RES is not None:
    for word, expected in [([], True), (["c0", "c255", "c17"], True),
                           (["x"], False)]:
        if RES.accepts(word) != expected:
            PROBLEMS.append("star: %r expected %r" % (word, expected))
RES = attempt("union of a 2-state automaton over 256 symbols with {x}",
              lambda: WIDE.union(OTHER))
if RES is not None:
    for word, expected in [([], False), (["c0"], True), (["c255"], True),
                           (["x"], True), (["c0", "x"], False)]:
        if RES.accepts(word) != expected:
            PROBLEMS.append("union: %r expected %r" % (word, expected))

# 2. a single word of length 200 (201 states in a line)
LENGTH = 200
WORD = ["a" if i % 3 else "b" for i in range(LENGTH)]
CHAIN = EpsilonNFA()
for i, letter in enumerate(WORD):
    CHAIN.add_transition(i, letter, i + 1)
CHAIN.add_start_state(0)
CHAIN.add_final_state(LENGTH)
RES = attempt("concatenate of a 200-letter word automaton with {x}",
              lambda: CHAIN.concatenate(OTHER))
if RES is not None:
    for word, expected in [(WORD + ["x"], True), (WORD, False),
                           (WORD[1:] + ["x"], False), (["x"], False)]:
        if RES.accepts(word) != expected:
            PROBLEMS.append("concatenate: word of length %d expected %r" %
                            (len(word), expected))

for problem in PROBLEMS:
    print(problem)
if PROBLEMS:
    sys.exit(1)
print("ok")
