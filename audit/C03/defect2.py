"""union / concatenate / kleene_star replace every symbol value by its text:
an automaton over the integers 0 and 1 gives a
result over the strings "0" and "1", which accepts none of the words of the
operands.  Symbol(1) and Symbol("1") are different symbols for accepts,
get_intersection, get_complement, get_difference and reverse."""
import itertools
import sys

from pyformlang.finite_automaton import EpsilonNFA, Symbol


def build(trans, starts, finals):
    enfa = EpsilonNFA()
    for s_from, symb, s_to in trans:
        enfa.add_transition(s_from, Symbol(symb), s_to)
    for state in starts:
        enfa.add_start_state(state)
    for state in finals:
        enfa.add_final_state(state)
    return enfa


def accepts(spec, word):
    """ Independent simulation (the test automata have no epsilon moves) """
    trans, starts, finals = spec
    current = set(starts)
    for char in word:
        current = {t for (s, a, t) in trans if s in current and a == char}
    return bool(current & set(finals))


def star(spec, word):
    good = [True] + [False] * len(word)
    for i in range(1, len(word) + 1):
        good[i] = any(good[j] and accepts(spec, word[j:i]) for j in range(i))
    return good[-1]


PROBLEMS = []
for zero, one in [(0, 1), (-1, 7), (1, "1")]:
    # A = zero one* ; B = one one
    spec_a = ([("p", zero, "q"), ("q", one, "q")], ["p"], ["q"])
    spec_b = ([("p", one, "q"), ("q", one, "r")], ["p"], ["r"])
    alphabet = [zero, one, str(zero), str(one)]
    alphabet = [x for i, x in enumerate(alphabet) if x not in alphabet[:i]]
    expected = {
        "union": lambda w: accepts(spec_a, w) or accepts(spec_b, w),
        "concatenate": lambda w: any(
            accepts(spec_a, w[:i]) and accepts(spec_b, w[i:])
            for i in range(len(w) + 1)),
        "kleene_star": lambda w: star(spec_a, w),
    }
    for name, oracle in expected.items():
        enfa_a, enfa_b = build(*spec_a), build(*spec_b)
        # The library itself distinguishes the value from its text
        assert enfa_a.accepts([zero, one])
        assert zero == str(zero) or not enfa_a.accepts([str(zero), one])
        try:
            if name == "kleene_star":
                result = enfa_a.kleene_star()
            else:
                result = getattr(enfa_a, name)(enfa_b)
        except Exception as exc:  # pylint: disable=broad-except
            PROBLEMS.append("%s with symbols %r, %r raised %s" %
                            (name, zero, one, type(exc).__name__))
            continue
        for length in range(4):
            bad = [list(w) for w in itertools.product(alphabet, repeat=length)
                   if result.accepts(list(w)) != oracle(list(w))]
            if bad:
                PROBLEMS.append(
                    "%s with symbols %r, %r: word %r expected %r, "
                    "observed %r" %
                    (name, zero, one, bad[0], oracle(bad[0]),
                     result.accepts(bad[0])))
                break

for problem in PROBLEMS:
    print(problem)
if PROBLEMS:
    print("%d wrong results" % len(PROBLEMS))
    sys.exit(1)
print("ok")
