"""C08 defect 3: contains() raises RecursionError when a production body is long.

As soon as the grammar needs cleaning (any epsilon/unit production or useless symbol),
to_normal_form() calls remove_epsilon(), whose helper remove_nullable_production_sub
recurses once per body symbol.  A body of ~1000 symbols (e.g. a grammar that spells
out a long fixed word) exceeds Python's default recursion limit, and membership
of ANY word, even a 2-letter one, raises RecursionError instead of answering.
The very same long production is handled when the grammar happens to be "clean".
"""
import sys

from pyformlang.cfg import CFG, Variable, Terminal, Production

S, A = Variable("S"), Variable("A")
a, b = Terminal("a"), Terminal("b")
N = 1200


def oracle(word):
    """S -> a^N | A ;  A -> b b"""
    return word == ["a"] * N or word == ["b", "b"]


failures = []
for word in (["b", "b"], ["a"], ["b"], [], ["a", "a", "a"]):
    # a fresh grammar each time: nothing cached
    cfg = CFG(start_symbol=S,
              productions=[Production(S, [a] * N),
                           Production(S, [A]),          # one unit production
                           Production(A, [b, b])])
    want = oracle(word)
    try:
        got = cfg.contains(word)
    except RecursionError as exc:
        got = "RecursionError(%s)" % str(exc)[:40]
    if got is not want:
        failures.append((word, want, got))

if failures:
    print("grammar: S -> a^%d | A ; A -> b b   (recursion limit %d)"
          % (N, sys.getrecursionlimit()))
    for word, want, got in failures:
        print("  contains(%r): expected %s, got %s" % (word, want, got))
    sys.exit(1)
print("ok")
