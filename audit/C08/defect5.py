"""C08 defect 5 (borderline: de-facto non-termination): contains() on a 3-production
grammar whose longest body has 28 symbols does not come back.

S -> A^28 ; A -> a | epsilon.  remove_epsilon() expands a body with k nullable
symbols into 2^k productions before the bodies are split into pairs, so the
normal form (needed for every non-empty word) costs time AND memory 2^28.
Measured on the current code: k=14 1.8 s, k=16 8.6 s, k=18 37 s (x4.3 per +2).
The script gives the call 60 s of CPU and 3 GB; a polynomial construction
(split long bodies first, or handle nullables pairwise) answers instantly.
"""
import resource
import signal
import sys

from pyformlang.cfg import CFG, Variable, Terminal, Production

K = 28
S, A = Variable("S"), Variable("A")
a = Terminal("a")


def oracle(word):
    """L = { a^n : 0 <= n <= K }"""
    return all(x == "a" for x in word) and len(word) <= K


class Timeout(Exception):
    """ watchdog """


def handler(_signum, _frame):
    raise Timeout()


signal.signal(signal.SIGXCPU, handler)
resource.setrlimit(resource.RLIMIT_CPU, (60, 90))
try:
    resource.setrlimit(resource.RLIMIT_AS, (3 * 2 ** 30, 3 * 2 ** 30))
except (ValueError, OSError):
    pass

cfg = CFG(start_symbol=S,
          productions=[Production(S, [A] * K), Production(A, [a]),
                       Production(A, [])])
failures = []
for word in ([], ["a"], ["a", "a", "a"], ["b"], ["a"] * (K + 1)):
    want = oracle(word)
    try:
        got = cfg.contains(word)
    except Timeout:
        got = "no answer within 60 s CPU"
    except MemoryError:
        got = "MemoryError (3 GB exhausted)"
    if got is not want:
        failures.append((word, want, got))
        if not isinstance(got, bool):
            break

if failures:
    print("grammar: S -> A^%d ; A -> a | epsilon" % K)
    for word, want, got in failures:
        print("  contains(%r): expected %s, got %s" % (word, want, got))
    sys.exit(1)
print("ok")
