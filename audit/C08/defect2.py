"""C08 defect 2: CFG(productions=<one-shot iterable>) loses all productions.

The constructor is annotated `productions: Iterable[Production]`, but it keeps the
object it was given and iterates over it once to collect the symbols; a generator or
iterator is then exhausted, so the grammar silently has no productions (wrong answers)
or contains() raises TypeError (len() of a generator).
The reference answers come from the same grammar built from a list.
"""
import itertools
import sys

from pyformlang.cfg import CFG, Variable, Terminal, Production


def productions():
    s, a_var = Variable("S"), Variable("A")
    a, b = Terminal("a"), Terminal("b")
    return [Production(s, [a, s, b]), Production(s, [a_var]),
            Production(a_var, []), Production(a_var, [b, a_var])]


def oracle(word):
    """L = { a^n b^m : m >= n }"""
    n_a = 0
    while n_a < len(word) and word[n_a] == "a":
        n_a += 1
    rest = word[n_a:]
    return all(x == "b" for x in rest) and len(rest) >= n_a


SOURCES = [
    ("generator expression", lambda: (p for p in productions())),
    ("iter(list)", lambda: iter(productions())),
    ("map object", lambda: map(lambda p: p, productions())),
    ("list (reference)", productions),
]

failures = []
for label, make in SOURCES:
    cfg = CFG(start_symbol=Variable("S"), productions=make())
    for n in range(5):
        for word in itertools.product("ab", repeat=n):
            want = oracle(word)
            try:
                got = cfg.contains(list(word))
            except Exception as exc:  # pylint: disable=broad-except
                got = "exception %r" % (exc,)
            if got is not want:
                failures.append((label, word, want, got))

if failures:
    print("%d wrong answers; first ones:" % len(failures))
    seen = set()
    for label, word, want, got in failures:
        if (label, str(got)) in seen:
            continue
        seen.add((label, str(got)))
        print("  productions given as %s, word %r: expected %s, got %s"
              % (label, "".join(word), want, got))
    sys.exit(1)
print("ok")
