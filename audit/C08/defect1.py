"""C08 defect 1: a terminal whose value is the text 'epsilon' is confused with the empty word.

The library supports such a terminal on purpose (CFG.from_text: "TER:epsilon"), and
Terminal("epsilon") is an ordinary public object.  cfg.contains() then answers wrongly.
Compared against an independent bounded-derivation oracle.
"""
import itertools
import sys

from pyformlang.cfg import CFG, Variable, Terminal, Production

L = 3


def oracle(prods, start):
    """All words (tuples of terminal values) of length <= L derivable from start.
    prods: list of (head, [('V', name) | ('T', value), ...])"""
    lang = {}
    for head, body in prods:
        lang.setdefault(head, set())
        for tag, val in body:
            if tag == 'V':
                lang.setdefault(val, set())
    changed = True
    while changed:
        changed = False
        for head, body in prods:
            cur = {()}
            for tag, val in body:
                if tag == 'T':
                    cur = {w + (val,) for w in cur if len(w) < L}
                else:
                    cur = {w + x for w in cur for x in lang[val]
                           if len(w) + len(x) <= L}
            if not cur <= lang[head]:
                lang[head] |= cur
                changed = True
    return lang.get(start, set())


def build(prods, start):
    return CFG(start_symbol=Variable(start),
               productions=[Production(Variable(h),
                                       [Variable(v) if t == 'V' else Terminal(v)
                                        for t, v in b])
                            for h, b in prods])


E = ('T', "epsilon")
A = ('T', "a")
GRAMMARS = [
    ("S -> 'epsilon'", [("S", [E])]),
    ("S -> 'epsilon' a", [("S", [E, A])]),
    ("S -> a S 'epsilon' | a", [("S", [A, ('V', "S"), E]), ("S", [A])]),
    ("S -> X a ; X -> 'epsilon' | X X", [("S", [('V', "X"), A]), ("X", [E]),
                                      ("X", [('V', "X"), ('V', "X")])]),
]

failures = []
for name, prods in GRAMMARS:
    expected = oracle(prods, "S")
    cfgs = [("API", build(prods, "S"))]
    for label, cfg in cfgs:
        for n in range(L + 1):
            for word in itertools.product(["a", "epsilon", "b"], repeat=n):
                want = word in expected
                try:
                    got = cfg.contains(list(word))
                except Exception as exc:  # pylint: disable=broad-except
                    got = "exception %r" % (exc,)
                if got is not want:
                    failures.append((name, label, word, want, got))

# The same grammar written in the text format, with the documented "TER:" prefix
cfg_text = CFG.from_text('S -> "TER:epsilon" a')
for word, want in [(["epsilon", "a"], True), (["a"], False), ([], False)]:
    got = cfg_text.contains(word)
    if got is not want:
        failures.append(('from_text: S -> "TER:epsilon" a', "text", tuple(word),
                         want, got))

if failures:
    print("%d wrong membership answers; first ones:" % len(failures))
    for name, label, word, want, got in failures[:12]:
        print("  grammar [%s] (%s)  word %r: expected %s, contains() gave %s"
              % (name, label, list(word), want, got))
    sys.exit(1)
print("ok")
