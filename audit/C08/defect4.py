"""C08 defect 4: a production that keeps an Epsilon() object inside a non-empty body
(Production(head, body, filtering=False), e.g. S -> a epsilon b) is thrown away as
"useless", so words of the language are rejected.

The rest of the code explicitly supports Epsilon objects in bodies (nullable
computation starts from Epsilon(), get_reachable_symbols skips them,
remove_nullable_production_sub drops them), and S -> epsilon alone works.
Compared against an independent bounded-derivation oracle in which epsilon is the
empty word.
"""
import itertools
import sys

from pyformlang.cfg import CFG, Variable, Terminal, Production, Epsilon

L = 4


def oracle(prods, start):
    lang = {}
    for head, body in prods:
        lang.setdefault(head, set())
        for tag, val in body:
            if tag == 'V':
                lang.setdefault(val, set())
    changed = True
    while changed:
        changed = False
        for head, body in prods:
            cur = {()}
            for tag, val in body:
                if tag == 'E':
                    continue
                if tag == 'T':
                    cur = {w + (val,) for w in cur if len(w) < L}
                else:
                    cur = {w + x for w in cur for x in lang[val]
                           if len(w) + len(x) <= L}
            if not cur <= lang[head]:
                lang[head] |= cur
                changed = True
    return lang.get(start, set())


def to_obj(tag, val):
    if tag == 'V':
        return Variable(val)
    if tag == 'T':
        return Terminal(val)
    return Epsilon()


EPS = ('E', None)
A, B, S, X = ('T', "a"), ('T', "b"), ('V', "S"), ('V', "X")
GRAMMARS = [
    ("S -> a eps b", [("S", [A, EPS, B])]),
    ("S -> a eps", [("S", [A, EPS])]),
    ("S -> eps a S b | eps", [("S", [EPS, A, S, B]), ("S", [EPS])]),
    ("S -> X X ; X -> eps a | eps eps", [("S", [X, X]), ("X", [EPS, A]),
                                        ("X", [EPS, EPS])]),
]

failures = []
for name, prods in GRAMMARS:
    expected = oracle(prods, "S")
    for filtering in (False, True):
        cfg = CFG(start_symbol=Variable("S"),
                  productions=[Production(Variable(h),
                                          [to_obj(t, v) for t, v in b],
                                          filtering=filtering)
                               for h, b in prods])
        for n in range(L + 1):
            for word in itertools.product("ab", repeat=n):
                want = word in expected
                try:
                    got = cfg.contains(list(word))
                except Exception as exc:  # pylint: disable=broad-except
                    got = "exception %r" % (exc,)
                if got is not want:
                    failures.append((name, filtering, word, want, got))

if failures:
    print("%d wrong membership answers; first ones:" % len(failures))
    for name, filtering, word, want, got in failures[:10]:
        print("  grammar [%s] (filtering=%s) word %r: expected %s, got %s"
              % (name, filtering, "".join(word), want, got))
    sys.exit(1)
print("ok")
