"""C13 defect 1: a stack symbol whose text is "epsilon" is a real stack symbol
(PDA.add_transition keeps it in the pushed string, to_dict() shows it) but it
is not registered in the stack alphabet when it is pushed.  to_empty_stack()
then has no transition that removes it, and to_cfg() fails on it."""
import json
import sys
from itertools import product

from pyformlang.pda import PDA, Epsilon


# ---------------------------------------------------------------- oracle
def describe(pda):
    """Plain description of a PDA, read through the public API only."""
    trans = []
    for (s_from, symb, top), outs in pda.to_dict().items():
        for s_to, push in outs:
            symb_v = None if symb == Epsilon() else symb.value
            push_v = tuple(x.value for x in push
                           if not isinstance(x, Epsilon))
            trans.append((s_from.value, symb_v, top.value, s_to.value,
                          push_v))
    start = pda.start_state
    bottom = start_stack_symbol_value(pda)
    return {"trans": trans,
            "start": None if start is None else start.value,
            "bottom": bottom,
            "finals": {x.value for x in pda.final_states}}


def start_stack_symbol_value(pda):
    """The PDA class has no public accessor for the start stack symbol: it is
    read in the networkx export (label of the node INITIAL_STACK_HIDDEN)."""
    if hasattr(pda, "start_stack_symbol"):
        symbol = pda.start_stack_symbol
        return None if symbol is None else symbol.value
    try:
        graph = pda.to_networkx()
    except (TypeError, ValueError):
        # a value that json cannot write: no public way left
        symbol = getattr(pda, "_start_stack_symbol")
        return None if symbol is None else symbol.value
    if "INITIAL_STACK_HIDDEN" not in graph.nodes:
        return None
    label = graph.nodes["INITIAL_STACK_HIDDEN"]["label"]
    for symbol in pda.stack_symbols:
        try:
            if json.dumps(symbol.value) == label:
                return symbol.value
        except (TypeError, ValueError):
            pass
    return json.loads(label)


def _tables(desc, word):
    """pop[(p, X, i)]: (q, j) such that (p, w[i:], X) |-* (q, w[j:], eps)
    reach[(p, X, i)]: (q, j) such that (p, w[i:], X) |-* (q, w[j:], any)"""
    n = len(word)
    pop, reach = {}, {}
    changed = True
    while changed:
        changed = False
        for (p, a, top, r, push) in desc["trans"]:
            for i in range(n + 1):
                if a is None:
                    i_next = i
                elif i < n and word[i] == a:
                    i_next = i + 1
                else:
                    continue
                r_set = reach.setdefault((p, top, i), set())
                p_set = pop.setdefault((p, top, i), set())
                before = len(r_set), len(p_set)
                r_set.update([(p, i), (r, i_next)])
                current = {(r, i_next)}
                for symb in push:
                    following = set()
                    for (s, k) in current:
                        r_set.add((s, k))
                        r_set |= reach.get((s, symb, k), set())
                        following |= pop.get((s, symb, k), set())
                    current = following
                r_set |= current
                p_set |= current
                if (len(r_set), len(p_set)) != before:
                    changed = True
    return pop, reach


def accepts_by_empty_stack(desc, word):
    if desc["start"] is None or desc["bottom"] is None:
        return False
    pop, _ = _tables(desc, word)
    return any(j == len(word)
               for _, j in pop.get((desc["start"], desc["bottom"], 0), ()))


def accepts_by_final_state(desc, word):
    if desc["start"] is None or desc["bottom"] is None:
        return False
    if not word and desc["start"] in desc["finals"]:
        return True
    _, reach = _tables(desc, word)
    return any(j == len(word) and q in desc["finals"]
               for q, j in reach.get((desc["start"], desc["bottom"], 0), ()))


def generates(productions, start, word):
    """productions: list of (head, body), body a tuple of ("V", name) or
    ("T", value).  Bottom-up fixed point on the spans of the word."""
    n = len(word)
    spans = {}
    changed = True
    while changed:
        changed = False
        for head, body in productions:
            table = spans.setdefault(head, set())
            for i in range(n + 1):
                ends = {i}
                for kind, value in body:
                    if kind == "T":
                        ends = {k + 1 for k in ends
                                if k < n and word[k] == value}
                    else:
                        ends = {j for (k, j) in spans.get(value, ())
                                if k in ends}
                for j in ends:
                    if (i, j) not in table:
                        table.add((i, j))
                        changed = True
    return (0, n) in spans.get(start, ())


def cfg_generates(cfg, word):
    """Membership in a library CFG, by the oracle above (not by CYK)."""
    from pyformlang.cfg import Terminal, Epsilon as CEpsilon
    if cfg.start_symbol is None:
        return False
    productions = []
    for production in cfg.productions:
        body = tuple(("T", x.value) if isinstance(x, Terminal)
                     else ("V", ("var", x.value))
                     for x in production.body
                     if not isinstance(x, CEpsilon))
        productions.append((("var", production.head.value), body))
    return generates(productions, ("var", cfg.start_symbol.value), word)


def all_words(alphabet, max_length):
    for length in range(max_length + 1):
        for word in product(alphabet, repeat=length):
            yield list(word)


FAILURES = []


def check(what, expected, observed):
    if expected != observed:
        FAILURES.append("%s: expected %r, observed %r"
                        % (what, expected, observed))


def attempt(what, function):
    try:
        return function()
    except Exception as exc:  # pylint: disable=broad-except
        FAILURES.append("%s: raised %s: %s"
                        % (what, type(exc).__name__, exc))
        return None


def finish():
    for failure in FAILURES:
        print("DEFECT", failure)
    if FAILURES:
        sys.exit(1)
    print("ok")
    sys.exit(0)
# ------------------------------------------------------------ end oracle


def make_pda():
    pda = PDA()
    # reads "a", replaces the bottom Z by the stack symbol "epsilon",
    # and goes to the final state
    pda.add_transition("q0", "a", "Z", "qf", ["epsilon"])
    pda.set_start_state("q0")
    pda.set_start_stack_symbol("Z")
    pda.add_final_state("qf")
    return pda


WORDS = list(all_words(["a"], 3))

# 1. to_empty_stack must accept by empty stack what is accepted by final state
PDA_1 = make_pda()
EXPECTED = [w for w in WORDS if accepts_by_final_state(describe(PDA_1), w)]
RESULT = attempt("to_empty_stack()", PDA_1.to_empty_stack)
if RESULT is not None:
    OBSERVED = [w for w in WORDS
                if accepts_by_empty_stack(describe(RESULT), w)]
    check("words accepted by to_empty_stack() (by empty stack) against the "
          "words the PDA accepts by final state", EXPECTED, OBSERVED)

# 2. to_cfg must give the words accepted by empty stack (and not fail)
PDA_2 = make_pda()
EXPECTED = [w for w in WORDS if accepts_by_empty_stack(describe(PDA_2), w)]
RESULT = attempt("to_cfg()", PDA_2.to_cfg)
if RESULT is not None:
    OBSERVED = [w for w in WORDS if cfg_generates(RESULT, w)]
    check("words of to_cfg() against the words accepted by empty stack",
          EXPECTED, OBSERVED)

# 3. the same with the symbol under another one: a b* with a final state
PDA_3 = PDA()
PDA_3.add_transition("q0", "a", "Z", "q1", ["A", "epsilon"])
PDA_3.add_transition("q1", "b", "A", "q1", ["A"])
PDA_3.set_start_state("q0")
PDA_3.set_start_stack_symbol("Z")
PDA_3.add_final_state("q1")
WORDS = list(all_words(["a", "b"], 3))
EXPECTED = [w for w in WORDS if accepts_by_final_state(describe(PDA_3), w)]
RESULT = attempt("to_empty_stack() (3)", PDA_3.to_empty_stack)
if RESULT is not None:
    OBSERVED = [w for w in WORDS
                if accepts_by_empty_stack(describe(RESULT), w)]
    check("words accepted by to_empty_stack() (3)", EXPECTED, OBSERVED)

finish()
