"""C13 defect 4: a PDA without start state or without start stack symbol (for
instance PDA(), which PDA.intersection returns for an empty intersection)
accepts nothing.  to_cfg() fails on it with AttributeError, and
to_final_state() / to_empty_stack() put None in the place of a state and of a
stack symbol in the transitions of their result."""
import json
import sys
from itertools import product

from pyformlang.pda import PDA, Epsilon


# ---------------------------------------------------------------- oracle
def describe(pda):
    """Plain description of a PDA, read through the public API only."""
    trans = []
    for (s_from, symb, top), outs in pda.to_dict().items():
        for s_to, push in outs:
            symb_v = None if symb == Epsilon() else symb.value
            push_v = tuple(x.value for x in push
                           if not isinstance(x, Epsilon))
            trans.append((s_from.value, symb_v, top.value, s_to.value,
                          push_v))
    start = pda.start_state
    bottom = start_stack_symbol_value(pda)
    return {"trans": trans,
            "start": None if start is None else start.value,
            "bottom": bottom,
            "finals": {x.value for x in pda.final_states}}


def start_stack_symbol_value(pda):
    """The PDA class has no public accessor for the start stack symbol: it is
    read in the networkx export (label of the node INITIAL_STACK_HIDDEN)."""
    if hasattr(pda, "start_stack_symbol"):
        symbol = pda.start_stack_symbol
        return None if symbol is None else symbol.value
    try:
        graph = pda.to_networkx()
    except (TypeError, ValueError):
        # a value that json cannot write: no public way left
        symbol = getattr(pda, "_start_stack_symbol")
        return None if symbol is None else symbol.value
    if "INITIAL_STACK_HIDDEN" not in graph.nodes:
        return None
    label = graph.nodes["INITIAL_STACK_HIDDEN"]["label"]
    for symbol in pda.stack_symbols:
        try:
            if json.dumps(symbol.value) == label:
                return symbol.value
        except (TypeError, ValueError):
            pass
    return json.loads(label)


def _tables(desc, word):
    """pop[(p, X, i)]: (q, j) such that (p, w[i:], X) |-* (q, w[j:], eps)
    reach[(p, X, i)]: (q, j) such that (p, w[i:], X) |-* (q, w[j:], any)"""
    n = len(word)
    pop, reach = {}, {}
    changed = True
    while changed:
        changed = False
        for (p, a, top, r, push) in desc["trans"]:
            for i in range(n + 1):
                if a is None:
                    i_next = i
                elif i < n and word[i] == a:
                    i_next = i + 1
                else:
                    continue
                r_set = reach.setdefault((p, top, i), set())
                p_set = pop.setdefault((p, top, i), set())
                before = len(r_set), len(p_set)
                r_set.update([(p, i), (r, i_next)])
                current = {(r, i_next)}
                for symb in push:
                    following = set()
                    for (s, k) in current:
                        r_set.add((s, k))
                        r_set |= reach.get((s, symb, k), set())
                        following |= pop.get((s, symb, k), set())
                    current = following
                r_set |= current
                p_set |= current
                if (len(r_set), len(p_set)) != before:
                    changed = True
    return pop, reach


def accepts_by_empty_stack(desc, word):
    if desc["start"] is None or desc["bottom"] is None:
        return False
    pop, _ = _tables(desc, word)
    return any(j == len(word)
               for _, j in pop.get((desc["start"], desc["bottom"], 0), ()))


def accepts_by_final_state(desc, word):
    if desc["start"] is None or desc["bottom"] is None:
        return False
    if not word and desc["start"] in desc["finals"]:
        return True
    _, reach = _tables(desc, word)
    return any(j == len(word) and q in desc["finals"]
               for q, j in reach.get((desc["start"], desc["bottom"], 0), ()))


def generates(productions, start, word):
    """productions: list of (head, body), body a tuple of ("V", name) or
    ("T", value).  Bottom-up fixed point on the spans of the word."""
    n = len(word)
    spans = {}
    changed = True
    while changed:
        changed = False
        for head, body in productions:
            table = spans.setdefault(head, set())
            for i in range(n + 1):
                ends = {i}
                for kind, value in body:
                    if kind == "T":
                        ends = {k + 1 for k in ends
                                if k < n and word[k] == value}
                    else:
                        ends = {j for (k, j) in spans.get(value, ())
                                if k in ends}
                for j in ends:
                    if (i, j) not in table:
                        table.add((i, j))
                        changed = True
    return (0, n) in spans.get(start, ())


def cfg_generates(cfg, word):
    """Membership in a library CFG, by the oracle above (not by CYK)."""
    from pyformlang.cfg import Terminal, Epsilon as CEpsilon
    if cfg.start_symbol is None:
        return False
    productions = []
    for production in cfg.productions:
        body = tuple(("T", x.value) if isinstance(x, Terminal)
                     else ("V", ("var", x.value))
                     for x in production.body
                     if not isinstance(x, CEpsilon))
        productions.append((("var", production.head.value), body))
    return generates(productions, ("var", cfg.start_symbol.value), word)


def all_words(alphabet, max_length):
    for length in range(max_length + 1):
        for word in product(alphabet, repeat=length):
            yield list(word)


FAILURES = []


def check(what, expected, observed):
    if expected != observed:
        FAILURES.append("%s: expected %r, observed %r"
                        % (what, expected, observed))


def attempt(what, function):
    try:
        return function()
    except Exception as exc:  # pylint: disable=broad-except
        FAILURES.append("%s: raised %s: %s"
                        % (what, type(exc).__name__, exc))
        return None


def finish():
    for failure in FAILURES:
        print("DEFECT", failure)
    if FAILURES:
        sys.exit(1)
    print("ok")
    sys.exit(0)
# ------------------------------------------------------------ end oracle

WORDS = list(all_words(["a"], 2))


def make_pda(with_start_state, with_start_stack_symbol):
    pda = PDA()
    pda.add_transition("q", "a", "Z", "q", ["Z"])
    pda.add_transition("q", "a", "Z", "q", [])
    pda.add_final_state("q")
    if with_start_state:
        pda.set_start_state("q")
    if with_start_stack_symbol:
        pda.set_start_stack_symbol("Z")
    return pda


def run(name, make):
    # no start configuration: no word is accepted, in either mode
    expected = []
    result = attempt(name + ": to_cfg()", make().to_cfg)
    if result is not None:
        check(name + ": words of to_cfg()", expected,
              [w for w in WORDS if cfg_generates(result, w)])
    result = attempt(name + ": to_final_state()", make().to_final_state)
    if result is not None:
        desc = attempt(name + ": reading the result of to_final_state() "
                       "(%r)" % result.to_dict(), lambda: describe(result))
        if desc is not None:
            check(name + ": words accepted by to_final_state()", expected,
                  [w for w in WORDS if accepts_by_final_state(desc, w)])
        attempt(name + ": to_final_state().to_empty_stack().to_cfg()",
                lambda: result.to_empty_stack().to_cfg())
    result = attempt(name + ": to_empty_stack()", make().to_empty_stack)
    if result is not None:
        desc = attempt(name + ": reading the result of to_empty_stack()",
                       lambda: describe(result))
        if desc is not None:
            check(name + ": words accepted by to_empty_stack()", expected,
                  [w for w in WORDS if accepts_by_empty_stack(desc, w)])
        back = attempt(name + ": to_empty_stack().to_cfg()", result.to_cfg)
        if back is not None:
            check(name + ": words of to_empty_stack().to_cfg()", expected,
                  [w for w in WORDS if cfg_generates(back, w)])


# sanity: with both, the PDA accepts a+ by empty stack and a* by final state
FULL = describe(make_pda(True, True))
assert [w for w in WORDS if accepts_by_empty_stack(FULL, w)] == \
    [["a"], ["a", "a"]]

run("no start state", lambda: make_pda(False, True))
run("no start stack symbol", lambda: make_pda(True, False))
run("PDA()", PDA)

finish()
