"""PDA.from_networkx(pda.to_networkx()) loses states that have no transition
and are neither start nor final (the exported graph does contain them)."""
import sys
from pyformlang.pda import PDA


def signature(pda):
    """Own description of the machine, by plain values."""
    states = {(type(s.value).__name__, s.value) for s in pda.states}
    start = None if pda.start_state is None else pda.start_state.value
    finals = {s.value for s in pda.final_states}
    transitions = set()
    for (s_from, symb, stack_from), outs in pda.to_dict().items():
        for s_to, stack_to in outs:
            transitions.add((s_from.value, symb.value, stack_from.value,
                             s_to.value,
                             tuple(x.value for x in stack_to)))
    return states, start, finals, transitions


CASES = []

# 1. states declared in the constructor, one of them ("sink") is isolated
pda = PDA(states={"q0", "q1", "sink"},
          start_state="q0", start_stack_symbol="Z", final_states={"q1"})
pda.add_transition("q0", "a", "Z", "q1", ["Z"])
CASES.append(("declared isolated state", pda))

# 2. only declared states, no transition at all
pda = PDA(states={0, 1, 2}, start_state=0, start_stack_symbol="Z")
CASES.append(("no transitions, three states", pda))

# 3. control: every state is used (this one works today)
pda = PDA(start_state="q0", start_stack_symbol="Z", final_states={"q1"})
pda.add_transition("q0", "a", "Z", "q1", ["Z", "Z"])
CASES.append(("control", pda))

failed = False
for name, pda in CASES:
    graph = pda.to_networkx()
    back = PDA.from_networkx(graph)
    before, after = signature(pda), signature(back)
    if before != after:
        failed = True
        print("DEFECT (%s):" % name)
        print("   states before round trip:", sorted(before[0], key=repr))
        print("   states after  round trip:", sorted(after[0], key=repr))
        if before[1:] != after[1:]:
            print("   rest before:", before[1:])
            print("   rest after :", after[1:])

if failed:
    sys.exit(1)
print("ok")
