"""CFG.to_text writes a terminal whose text is an epsilon spelling
("epsilon", "$", "ε", "ϵ") without the "TER:" marker it needs; CFG.from_text
then reads it as the empty word, so the language changes."""
import sys
from pyformlang.cfg import CFG, Variable, Terminal, Production

MAX_LEN = 4


def language(cfg, start, max_len=MAX_LEN):
    """ Independent oracle: all words of length <= max_len, as tuples of
    terminal values, by a fixpoint over the productions """
    prods = []
    for prod in cfg.productions:
        body = [("V" if isinstance(x, Variable) else "T", x.value)
                for x in prod.body]
        prods.append((prod.head.value, body))
    lang = {}
    changed = True
    while changed:
        changed = False
        for head, body in prods:
            current = {()}
            for kind, value in body:
                if kind == "T":
                    current = {w + (value,) for w in current
                               if len(w) < max_len}
                else:
                    current = {w + x for w in current
                               for x in lang.get(value, ())
                               if len(w) + len(x) <= max_len}
            if not current <= lang.setdefault(head, set()):
                lang[head] |= current
                changed = True
    return lang.get(start, set())


failed = False
# the last two are controls that work today
for spelling in ["epsilon", "$", "ε", "ϵ", "Є", "eps", "Epsilon"]:
    var_s, var_x = Variable("S"), Variable("x")
    cfg = CFG(productions=[
        Production(var_s, [Terminal("a"), Terminal(spelling), var_x]),
        Production(var_x, [Terminal("John"), var_x]),
        Production(var_x, []),
    ], start_symbol=var_s)
    text = cfg.to_text()
    back = CFG.from_text(text, var_s)
    expected = language(cfg, "S")
    observed = language(back, "S")
    if expected != observed:
        failed = True
        print("DEFECT for the terminal %r" % spelling)
        print("   to_text() gives   :", repr(text))
        print("   words only before :", sorted(expected - observed))
        print("   words only after  :", sorted(observed - expected))

if failed:
    sys.exit(1)
print("ok")
