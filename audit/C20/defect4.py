"""A PDA without start stack symbol that has a state called
"INITIAL_STACK_HIDDEN" (the node name to_networkx reserves for the start stack
symbol) cannot be read back: from_networkx takes the state for the hidden
node and raises JSONDecodeError."""
import sys
from pyformlang.pda import PDA


def signature(pda):
    """Own description of the machine, by plain values."""
    states = {s.value for s in pda.states}
    start = None if pda.start_state is None else pda.start_state.value
    finals = {s.value for s in pda.final_states}
    transitions = set()
    for (s_from, symb, stack_from), outs in pda.to_dict().items():
        for s_to, stack_to in outs:
            transitions.add((s_from.value, symb.value, stack_from.value,
                             s_to.value,
                             tuple(x.value for x in stack_to)))
    return states, start, finals, transitions


def build(state_name, start_stack_symbol):
    pda = PDA(start_state="q0", final_states={state_name},
              start_stack_symbol=start_stack_symbol)
    pda.add_transition("q0", "a", "Z", state_name, ["Z", "Z"])
    pda.add_transition(state_name, "b", "Z", state_name, [])
    return pda


failed = False
for name, symbol in [("INITIAL_STACK_HIDDEN", None),   # fails today
                     ("INITIAL_STACK_HIDDEN", "Z"),    # control
                     ("q1", None)]:                    # control
    pda = build(name, symbol)
    expected = signature(pda)
    try:
        back = PDA.from_networkx(pda.to_networkx())
        observed = signature(back)
    except Exception as exc:  # pylint: disable=broad-except
        failed = True
        print("DEFECT: state %r, start stack symbol %r: from_networkx raises"
              % (name, symbol))
        print("   ", repr(exc))
        continue
    if expected != observed:
        failed = True
        print("DEFECT: state %r, start stack symbol %r" % (name, symbol))
        print("   before:", expected)
        print("   after :", observed)

if failed:
    sys.exit(1)
print("ok")
