"""CFG.to_text writes symbols that contain the structural characters of the
text format ("|" and "->") bare, so CFG.from_text cuts the production there:
the language changes, or from_text raises ValueError."""
import sys
from pyformlang.cfg import CFG, Variable, Terminal, Production

MAX_LEN = 4


def language(cfg, start, max_len=MAX_LEN):
    """ Independent oracle: all words of length <= max_len, as tuples of
    terminal values, by a fixpoint over the productions """
    prods = []
    for prod in cfg.productions:
        body = [("V" if isinstance(x, Variable) else "T", x.value)
                for x in prod.body]
        prods.append((prod.head.value, body))
    lang = {}
    changed = True
    while changed:
        changed = False
        for head, body in prods:
            current = {()}
            for kind, value in body:
                if kind == "T":
                    current = {w + (value,) for w in current
                               if len(w) < max_len}
                else:
                    current = {w + x for w in current
                               for x in lang.get(value, ())
                               if len(w) + len(x) <= max_len}
            if not current <= lang.setdefault(head, set()):
                lang[head] |= current
                changed = True
    return lang.get(start, set())


failed = False
# a grammar of regular expressions needs the terminal "|"; a grammar of
# grammars needs "->". The last three are controls that work today.
for token in ["|", "a|b", "->", "a->b", "-", ">", "<-"]:
    var_s, var_e = Variable("S"), Variable("E")
    cfg = CFG(productions=[
        Production(var_s, [var_e, Terminal(token), var_e]),
        Production(var_e, [Terminal("x")]),
        Production(var_e, [Terminal("("), var_s, Terminal(")")]),
    ], start_symbol=var_s)
    expected = language(cfg, "S")
    text = cfg.to_text()
    try:
        back = CFG.from_text(text, var_s)
        observed = language(back, "S")
    except Exception as exc:  # pylint: disable=broad-except
        failed = True
        print("DEFECT for the terminal %r" % token)
        print("   to_text() gives :", repr(text))
        print("   from_text raises:", repr(exc))
        continue
    if expected != observed:
        failed = True
        print("DEFECT for the terminal %r" % token)
        print("   to_text() gives   :", repr(text))
        print("   words only before :", sorted(expected - observed)[:4])
        print("   words only after  :", sorted(observed - expected)[:4])

if failed:
    sys.exit(1)
print("ok")
