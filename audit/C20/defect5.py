"""Tuple-valued symbols (json.dumps writes them as arrays) are exported by
FST.to_networkx / PDA.to_networkx without complaint, but from_networkx reads
them back as lists and raises TypeError: unhashable type 'list'.
(The finite automaton classes, which keep the raw value in the label, round
trip the same symbols correctly.)"""
import sys
from pyformlang.fst import FST
from pyformlang.pda import PDA
from pyformlang.finite_automaton import EpsilonNFA

failed = False

# --- FST: input symbol ("a", 1), output symbols [("b", 2), "c"]
fst = FST()
fst.add_transition(0, ("a", 1), 1, [("b", 2), "c"])
fst.add_start_state(0)
fst.add_final_state(1)
word = [("a", 1)]
expected = [[("b", 2), "c"]]          # own oracle: the only path
assert list(fst.translate(word)) == expected
try:
    back = FST.from_networkx(fst.to_networkx())
    observed = list(back.translate(word))
    if observed != expected:
        failed = True
        print("DEFECT (FST): translation", observed, "instead of", expected)
except Exception as exc:  # pylint: disable=broad-except
    failed = True
    print("DEFECT (FST): from_networkx(to_networkx()) raises", repr(exc))

# --- PDA: stack symbols ("Z", 0), ("X", 1) and input symbol ("a", 1)
pda = PDA(start_state=0, start_stack_symbol=("Z", 0), final_states={1})
pda.add_transition(0, ("a", 1), ("Z", 0), 1, [("X", 1), ("Z", 0)])
try:
    back = PDA.from_networkx(pda.to_networkx())
    same = (
        {s.value for s in back.stack_symbols} == {("Z", 0), ("X", 1)} and
        {s.value for s in back.input_symbols} == {("a", 1)} and
        back.get_number_transitions() == 1)
    if not same:
        failed = True
        print("DEFECT (PDA): symbols after the round trip:",
              back.stack_symbols, back.input_symbols)
except Exception as exc:  # pylint: disable=broad-except
    failed = True
    print("DEFECT (PDA): from_networkx(to_networkx()) raises", repr(exc))

# --- control: the same symbol in an epsilon NFA works
enfa = EpsilonNFA()
enfa.add_transition(0, ("a", 1), 1)
enfa.add_start_state(0)
enfa.add_final_state(1)
back = EpsilonNFA.from_networkx(enfa.to_networkx())
if not back.accepts([("a", 1)]):
    failed = True
    print("DEFECT (ENFA): tuple symbol lost")

if failed:
    sys.exit(1)
print("ok")
