"""C14 defect 2: a production that is listed twice counts as an LL(1) conflict.

A grammar is a SET of productions.  Several library operations
(eliminate_unit_productions, remove_epsilon, and remove_useless_symbols /
reverse applied to their results) return CFG objects whose `productions` is a
list in which the same production occurs more than once, and CFG(...) itself
keeps a list argument as it is.  On such a CFG the LL(1) table holds the same
production twice in one cell, so is_llone_parsable() says False and
get_llone_parse_tree rejects every member of the language.
"""
import itertools
import sys

from pyformlang.cfg import CFG, Variable, Terminal, Production, LLOneParser
from pyformlang.cfg.cfg import NotParsableException


def in_language(word):
    """Oracle for  S -> a S | b : the language a*b."""
    return len(word) >= 1 and word[-1] == "b" and set(word[:-1]) <= {"a"}


def check(label, cfg, bad):
    # the grammar really is {S -> a S, S -> b}
    s, a, b = Variable("S"), Terminal("a"), Terminal("b")
    wanted = {Production(s, [a, s]), Production(s, [b])}
    if set(cfg.productions) != wanted or cfg.start_symbol != s:
        print("unexpected grammar for", label, list(cfg.productions))
        sys.exit(2)
    parser = LLOneParser(cfg)
    if not parser.is_llone_parsable():
        bad.append("%s: productions %r: is_llone_parsable() is False for the "
                   "LL(1) grammar S -> a S | b"
                   % (label, list(cfg.productions)))
    for n in range(0, 5):
        for word in itertools.product("ab", repeat=n):
            try:
                parser.get_llone_parse_tree(list(word))
                observed = True
            except NotParsableException:
                observed = False
            if observed != in_language(word):
                bad.append("%s: word %r: member=%r but parser %s"
                           % (label, "".join(word), in_language(word),
                              "returned a tree" if observed
                              else "raised NotParsableException"))
                break


BAD = []
BASE = CFG.from_text("S -> a S | b")
check("from_text", BASE, BAD)
check("eliminate_unit_productions()", BASE.eliminate_unit_productions(), BAD)
check("eliminate_unit_productions().remove_useless_symbols()",
      BASE.eliminate_unit_productions().remove_useless_symbols(), BAD)
S, A, B = Variable("S"), Terminal("a"), Terminal("b")
check("CFG(productions=[p, q, p])",
      CFG(start_symbol=S,
          productions=[Production(S, [A, S]), Production(S, [B]),
                       Production(S, [A, S])]), BAD)
# remove_epsilon also returns a list-backed CFG (no repetition on this input)
check("remove_epsilon()", CFG.from_text("S -> a S | b").remove_epsilon(), BAD)

if BAD:
    print("DEFECT: repeated productions are reported as LL(1) conflicts")
    for line in BAD:
        print("  ", line)
    sys.exit(1)
print("ok")
