"""C14 defect 1: a variable named "$" collides with the parser's end marker.

The grammar   S -> a V ;  V -> b | epsilon   (V is Variable("$")) is LL(1) and
generates {a, ab}.  get_llone_parse_tree must return a tree for members and
raise NotParsableException for non-members, never another error.
"""
import itertools
import sys

from pyformlang.cfg import CFG, Variable, Terminal, Production, LLOneParser
from pyformlang.cfg.cfg import NotParsableException


def grammar(var_name):
    s, v = Variable("S"), Variable(var_name)
    a, b = Terminal("a"), Terminal("b")
    return CFG(start_symbol=s,
               productions={Production(s, [a, v]),
                            Production(v, [b]),
                            Production(v, [])})


def tree_yield(tree):
    if not tree.sons:
        return [tree.value] if isinstance(tree.value, Terminal) else []
    res = []
    for son in tree.sons:
        res += tree_yield(son)
    return res


LANGUAGE = {("a",), ("a", "b")}    # oracle: the language is finite
bad = []
for name in ["V", "$"]:
    cfg = grammar(name)
    parser = LLOneParser(cfg)
    if not parser.is_llone_parsable():
        bad.append("variable %r: grammar reported as not LL(1)" % name)
    for n in range(0, 4):
        for word in itertools.product("ab", repeat=n):
            expected = word in LANGUAGE
            try:
                tree = parser.get_llone_parse_tree(list(word))
                observed = "tree"
                if tree_yield(tree) != [Terminal(x) for x in word]:
                    observed = "tree with wrong yield"
            except NotParsableException:
                observed = "NotParsableException"
            except Exception as exc:  # pylint: disable=broad-except
                observed = "%s(%s)" % (type(exc).__name__, exc)
            wanted = "tree" if expected else "NotParsableException"
            if observed != wanted:
                bad.append("variable named %r, word %r: expected %s, got %s"
                           % (name, list(word), wanted, observed))

# the start symbol itself may be called "$":  $ -> a $ | epsilon   (a*)
d = Variable("$")
cfg = CFG(start_symbol=d, productions={Production(d, [Terminal("a"), d]),
                                       Production(d, [])})
parser = LLOneParser(cfg)
for n in range(0, 4):
    word = ["a"] * n
    try:
        parser.get_llone_parse_tree(word)
    except Exception as exc:  # pylint: disable=broad-except
        bad.append("start symbol named '$', word %r (in a*): got %s(%s)"
                   % (word, type(exc).__name__, exc))

if bad:
    print("DEFECT: LL(1) parser confuses Variable('$') with its end marker")
    for line in bad:
        print("  ", line)
    sys.exit(1)
print("ok")
