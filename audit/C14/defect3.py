"""C14 defect 3: a terminal whose value is the text "epsilon" is half treated
as the empty word by FIRST/FOLLOW and by the LL(1) parser.

CFG.from_text lets one write such a terminal on purpose: "TER:epsilon".
Grammar:   S -> A b ;  A -> "TER:epsilon" | c
Two readings are conceivable; the program accepts either, as long as FIRST and
the parser agree with ONE of them:
  R (a real terminal named epsilon, what "TER:" asks for):
        language {epsilon b, c b}, FIRST(S) = {epsilon-terminal, c}
  E (just another way to write the empty word):
        language {b, c b},         FIRST(S) = {b, c}
"""
import itertools
import sys

from pyformlang.cfg import CFG, Variable, Terminal, Epsilon, LLOneParser
from pyformlang.cfg.cfg import NotParsableException

cfg = CFG.from_text('S -> A b\nA -> "TER:epsilon" | c')
parser = LLOneParser(cfg)
S = Variable("S")

eps_terminals = [x for x in cfg.terminals if x.value == "epsilon"]
if len(eps_terminals) != 1 or isinstance(eps_terminals[0], Epsilon):
    print("from_text did not build a plain terminal named epsilon")
    sys.exit(2)

ALPHABET = ["epsilon", "b", "c"]
accepted = set()
other_errors = []
for n in range(0, 4):
    for word in itertools.product(ALPHABET, repeat=n):
        try:
            parser.get_llone_parse_tree([Terminal(x) for x in word])
            accepted.add(word)
        except NotParsableException:
            pass
        except Exception as exc:  # pylint: disable=broad-except
            other_errors.append((word, repr(exc)))


def describe(symbol):
    return "eps" if isinstance(symbol, Epsilon) else str(symbol.value)


first_s = sorted(describe(x) for x in parser.get_first_set().get(S, set()))

READING_R = ({("epsilon", "b"), ("c", "b")}, ["c", "epsilon"])
READING_E = ({("b",), ("c", "b")}, ["b", "c"])
# under E the parser drops the epsilon tokens of the input, as it does for
# Epsilon() objects, so compare after removing them
accepted_e = {tuple(x for x in w if x != "epsilon") for w in accepted}

ok_r = (accepted == READING_R[0] and first_s == READING_R[1])
ok_e = (accepted_e == READING_E[0] and first_s == READING_E[1])

if other_errors or not (ok_r or ok_e):
    print('DEFECT: grammar  S -> A b ; A -> "TER:epsilon" | c')
    print("   is_llone_parsable():", parser.is_llone_parsable())
    print("   FIRST(S) =", first_s)
    print("   words over {epsilon,b,c} up to length 3 that are parsed:",
          sorted(accepted))
    print("   reading R expects FIRST(S) =", READING_R[1], "and parses",
          sorted(READING_R[0]))
    print("   reading E expects FIRST(S) =", READING_E[1], "and parses",
          sorted(READING_E[0]))
    for word, exc in other_errors:
        print("   other error on", word, exc)
    sys.exit(1)
print("ok")
