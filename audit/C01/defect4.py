"""An automaton built with the constructor from a transition function (without repeating the
states / letters that the transition function already mentions) accepts its words, but
copy / to_deterministic / remove_epsilon_transitions / minimize lose all transitions."""
import sys
import itertools
from pyformlang.finite_automaton import (EpsilonNFA, NondeterministicFiniteAutomaton,
                                         DeterministicFiniteAutomaton, State, Symbol, Epsilon,
                                         NondeterministicTransitionFunction, TransitionFunction)

problems = []


def oracle(trans, starts, finals, word):
    def close(cur):
        cur, todo = set(cur), list(cur)
        while todo:
            x = todo.pop()
            for p, s, q in trans:
                if p == x and s is None and q not in cur:
                    cur.add(q)
                    todo.append(q)
        return cur
    cur = close(starts)
    for c in word:
        cur = close({q for p, s, q in trans if p in cur and s is not None and s == c})
    return bool(cur & set(finals))


def check(label, make, trans, starts, finals):
    try:
        aut = make()
    except Exception as exc:   # refusing an incomplete description would be a legitimate repair
        print("(%s: construction refused with %s, nothing to check)" % (label, type(exc).__name__))
        return
    results = [(label, aut)]
    for name in ("copy", "remove_epsilon_transitions", "to_deterministic", "minimize"):
        try:
            results.append(("%s.%s()" % (label, name), getattr(aut, name)()))
        except Exception as exc:
            problems.append("%s.%s() raised %s: %s" % (label, name, type(exc).__name__, exc))
    for name, res in results:
        for length in range(4):
            bad = [w for w in itertools.product(["a", "b"], repeat=length)
                   if res.accepts(list(w)) != oracle(trans, starts, finals, w)]
            if bad:
                w = bad[0]
                problems.append("%s.accepts(%r) = %r, expected %r" % (
                    name, list(w), res.accepts(list(w)), oracle(trans, starts, finals, w)))
                break


# epsilon-NFA: 0 -a-> 1 -eps-> 2 -b-> 2
T1 = [(0, "a", 1), (1, None, 2), (2, "b", 2)]


def make_enfa():
    func = NondeterministicTransitionFunction()
    for p, s, q in T1:
        func.add_transition(State(p), Epsilon() if s is None else Symbol(s), State(q))
    return EpsilonNFA(transition_function=func, start_state={0}, final_states={2})


def make_nfa():
    func = NondeterministicTransitionFunction()
    for p, s, q in T2:
        func.add_transition(State(p), Symbol(s), State(q))
    return NondeterministicFiniteAutomaton(transition_function=func, start_state={0},
                                           final_states={2})


def make_dfa():
    func = TransitionFunction()
    for p, s, q in T3:
        func.add_transition(State(p), Symbol(s), State(q))
    return DeterministicFiniteAutomaton(transition_function=func, start_state=0,
                                        final_states={2})


T2 = [(0, "a", 1), (0, "a", 2), (1, "b", 2)]
T3 = [(0, "a", 1), (1, "b", 2), (2, "a", 2)]
check("enfa", make_enfa, T1, {0}, {2})
check("nfa", make_nfa, T2, {0}, {2})
check("dfa", make_dfa, T3, {0}, {2})

if problems:
    print("DEFECT: automata built from a transition function lose their transitions")
    for p in problems:
        print(" -", p)
    sys.exit(1)
print("ok")
