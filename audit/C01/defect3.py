"""Putting epsilon in the alphabet (constructor input_symbols={"a", "epsilon"} or
add_symbol("epsilon")) makes to_deterministic, remove_epsilon_transitions and minimize raise
InvalidEpsilonTransition as soon as the automaton has an epsilon transition."""
import sys
import itertools
from pyformlang.finite_automaton import EpsilonNFA, Epsilon

TRANS = [(0, "a", 1), (1, None, 2), (2, "a", 2)]   # None = epsilon move
START, FINAL = {0}, {2}


def oracle(word):
    def close(cur):
        cur, todo = set(cur), list(cur)
        while todo:
            x = todo.pop()
            for p, s, q in TRANS:
                if p == x and s is None and q not in cur:
                    cur.add(q)
                    todo.append(q)
        return cur
    cur = close(START)
    for c in word:
        cur = close({q for p, s, q in TRANS if p in cur and s is not None and s == c})
    return bool(cur & FINAL)


def build(how):
    if how == "constructor":
        enfa = EpsilonNFA(input_symbols={"a", "b", "epsilon"})
    else:
        enfa = EpsilonNFA()
        enfa.add_symbol("a")
        enfa.add_symbol("b")
        enfa.add_symbol("epsilon")
    for p, s, q in TRANS:
        enfa.add_transition(p, "epsilon" if s is None else s, q)
    for s in START:
        enfa.add_start_state(s)
    for s in FINAL:
        enfa.add_final_state(s)
    return enfa


problems = []
for how in ("constructor", "add_symbol"):
    try:
        enfa = build(how)
    except Exception as exc:  # the library may choose to refuse epsilon as a letter
        print("(%s: construction refused with %s, nothing to check)" % (how, type(exc).__name__))
        continue
    results = [("enfa", enfa)]
    for name in ("copy", "remove_epsilon_transitions", "to_deterministic", "minimize"):
        try:
            results.append(("enfa.%s()" % name, getattr(enfa, name)()))
        except Exception as exc:
            problems.append("[%s] enfa.%s() raised %s" % (how, name, type(exc).__name__))
    for name, aut in results:
        if name.endswith(("to_deterministic()", "minimize()")) and not aut.is_deterministic():
            problems.append("[%s] %s is not deterministic" % (how, name))
        for length in range(5):
            for word in itertools.product(["a", "b"], repeat=length):
                if aut.accepts(list(word)) != oracle(word):
                    problems.append("[%s] %s.accepts(%r) = %r, expected %r"
                                    % (how, name, list(word), aut.accepts(list(word)), oracle(word)))
                    break

if problems:
    print("DEFECT: epsilon listed in the alphabet breaks the language-preserving operations")
    for p in problems[:10]:
        print(" -", p)
    sys.exit(1)
print("ok")
