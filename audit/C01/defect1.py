"""NondeterministicFiniteAutomaton.add_transition(s, "epsilon", t) does not raise
InvalidEpsilonTransition: it silently stores a real epsilon transition in the NFA, which
NFA.accepts / to_deterministic / minimize then ignore while copy() (an EpsilonNFA) follows it."""
import sys
from pyformlang.finite_automaton import NondeterministicFiniteAutomaton, Epsilon
from pyformlang.finite_automaton.transition_function import InvalidEpsilonTransition

problems = []
for spelling in ("epsilon", "ɛ"):
    # reference behaviour: the Epsilon() object is rejected
    ref = NondeterministicFiniteAutomaton()
    try:
        ref.add_transition(0, Epsilon(), 1)
        ref_rejects = False
    except InvalidEpsilonTransition:
        ref_rejects = True

    nfa = NondeterministicFiniteAutomaton()
    nfa.add_start_state(0)
    nfa.add_final_state(1)
    try:
        nfa.add_transition(0, spelling, 1)
    except InvalidEpsilonTransition:
        continue  # documented behaviour: epsilon transitions are forbidden in an NFA
    if ref_rejects:
        problems.append("add_transition(0, %r, 1) is accepted although add_transition(0, Epsilon(), 1) "
                        "raises InvalidEpsilonTransition; stored transitions: %r"
                        % (spelling, nfa.to_dict()))
    # The transition was stored.  Whatever it is taken to mean, the automaton and the automata
    # derived from it must agree with a run-based oracle on the stored transitions.
    stored = [(p.value, s, q.value) for p, d in nfa.to_dict().items() for s, qs in d.items() for q in qs]

    def oracle(word):
        def close(cur):
            cur = set(cur)
            todo = list(cur)
            while todo:
                x = todo.pop()
                for p, s, q in stored:
                    if p == x and isinstance(s, Epsilon) and q not in cur:
                        cur.add(q)
                        todo.append(q)
            return cur
        cur = close({0})
        for c in word:
            cur = close({q for p, s, q in stored
                         if p in cur and not isinstance(s, Epsilon) and s.value == c})
        return 1 in cur

    for word in ([], ["a"], ["a", "a"]):
        expected = oracle(word)
        for name, aut in (("nfa", nfa), ("nfa.copy()", nfa.copy()),
                          ("nfa.to_deterministic()", nfa.to_deterministic()),
                          ("nfa.remove_epsilon_transitions()", nfa.remove_epsilon_transitions()),
                          ("nfa.minimize()", nfa.minimize())):
            got = aut.accepts(word)
            if got != expected:
                problems.append("after add_transition(0, %r, 1): %s.accepts(%r) = %r, run-based oracle says %r"
                                % (spelling, name, word, got, expected))

if problems:
    print("DEFECT: an NFA accepts an epsilon transition spelled as a string")
    for p in problems:
        print(" -", p)
    sys.exit(1)
print("ok")
