"""A state whose value is None (State(None), or None given directly) is an ordinary state for
EpsilonNFA / NFA, but DeterministicFiniteAutomaton.accepts and .minimize use None as their
internal "no state / trash" marker: words are wrongly rejected and minimize crashes."""
import sys
import itertools
from pyformlang.finite_automaton import (EpsilonNFA, DeterministicFiniteAutomaton, State)

problems = []


def oracle(trans, start, finals, word):
    cur = {start}
    for c in word:
        cur = {q for p, s, q in trans if p in cur and s == c}
    return bool(cur & set(finals))


# "n" stands for the state with value None
CASES = [
    ("None is the final state", [(0, "a", "n"), ("n", "b", 0)], 0, ["n"]),
    ("None is the start state", [("n", "a", 1), (1, "b", "n")], "n", [1]),
    ("None is an inner state", [(0, "a", "n"), ("n", "b", 2)], 0, [2]),
]

for none_name, none in (("State(None)", State(None)), ("None", None)):
    for title, trans, start, finals in CASES:
        def val(x):
            return none if x == "n" else x
        for cls in (EpsilonNFA, DeterministicFiniteAutomaton):
            label = "%s, %s with %s" % (cls.__name__, title, none_name)
            try:
                aut = cls()
                for p, s, q in trans:
                    aut.add_transition(val(p), s, val(q))
                aut.add_start_state(val(start))
                for f in finals:
                    aut.add_final_state(val(f))
                if len(aut.states) != len({x for p, _, q in trans for x in (p, q)}) or len(aut.start_states) != 1:
                    raise ValueError("state None not stored")
            except Exception as exc:   # refusing None as a state value would be a legitimate repair
                print("(%s: construction refused with %s)" % (label, type(exc).__name__))
                continue
            results = [("self", aut)]
            for name in ("copy", "remove_epsilon_transitions", "to_deterministic", "minimize"):
                try:
                    results.append((name + "()", getattr(aut, name)()))
                except Exception as exc:
                    problems.append("[%s] %s() raised %s: %s" % (label, name, type(exc).__name__, exc))
            for name, res in results:
                for length in range(4):
                    bad = [w for w in itertools.product("ab", repeat=length)
                           if res.accepts(list(w)) != oracle(trans, start, finals, w)]
                    if bad:
                        w = bad[0]
                        problems.append("[%s] %s.accepts(%r) = %r, expected %r" % (
                            label, name, list(w), res.accepts(list(w)),
                            oracle(trans, start, finals, w)))
                        break

if problems:
    print("DEFECT: a state with value None is mistaken for the DFA's 'no state' marker")
    for p in problems:
        print(" -", p)
    sys.exit(1)
print("ok")
