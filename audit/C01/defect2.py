"""A word entry "epsilon" (documented in EpsilonNFA.accepts as spelling nothing) is skipped by
EpsilonNFA.accepts but treated as an unmatched letter by NFA.accepts and DFA.accepts, so
to_deterministic / remove_epsilon_transitions / minimize do not keep the set of accepted words."""
import sys
import itertools
from pyformlang.finite_automaton import EpsilonNFA, Epsilon

TRANS = [(0, "a", 1), (1, None, 2), (2, "b", 0)]   # None = epsilon move
START, FINAL = {0}, {2}


def oracle(word):
    """Run-based acceptance; an "epsilon"/"ɛ"/Epsilon() entry of the word spells nothing
    (this is the documented example: enfa.accepts(["abc", "epsilon"]) is True)."""
    def close(cur):
        cur, todo = set(cur), list(cur)
        while todo:
            x = todo.pop()
            for p, s, q in TRANS:
                if p == x and s is None and q not in cur:
                    cur.add(q)
                    todo.append(q)
        return cur
    cur = close(START)
    for c in word:
        if c in ("epsilon", "ɛ") or isinstance(c, Epsilon):
            continue
        cur = close({q for p, s, q in TRANS if p in cur and s is not None and s == c})
    return bool(cur & FINAL)


enfa = EpsilonNFA()
for p, s, q in TRANS:
    enfa.add_transition(p, Epsilon() if s is None else s, q)
for s in START:
    enfa.add_start_state(s)
for s in FINAL:
    enfa.add_final_state(s)

automata = [("enfa", enfa),
            ("enfa.copy()", enfa.copy()),
            ("enfa.remove_epsilon_transitions()", enfa.remove_epsilon_transitions()),
            ("enfa.to_deterministic()", enfa.to_deterministic()),
            ("enfa.minimize()", enfa.minimize()),
            ("enfa.to_deterministic().copy()", enfa.to_deterministic().copy())]

problems = []
for length in range(4):
    for word in itertools.product(["a", "b", "epsilon", "ɛ", Epsilon()], repeat=length):
        word = list(word)
        answers = [(name, aut.accepts(word)) for name, aut in automata]
        expected = oracle(word)
        wrong = [(n, a) for n, a in answers if a != expected]
        if wrong and len(problems) < 8:
            problems.append("word %r: expected %r, but %s" % (
                word, expected, ", ".join("%s -> %r" % na for na in wrong)))

if problems:
    print("DEFECT: the derived automata do not accept the same words as the epsilon-NFA")
    for p in problems:
        print(" -", p)
    sys.exit(1)
print("ok")
