"""C06 defect 3: to_regex() raises RecursionError on a plain 200-state chain
(a DFA for the single word a^200), although the regex text it builds is only
about 800 characters long.  The same happens for any automaton whose regex is a
concatenation of ~200 factors (long chains, long cycles).
"""
import sys

from pyformlang.finite_automaton import EpsilonNFA

N = 200


def oracle(word):
    """ The language of the chain is exactly { a^N } """
    return len(word) == N and all(letter == "a" for letter in word)


def main():
    enfa = EpsilonNFA()
    for i in range(N):
        enfa.add_transition(i, "a", i + 1)
    enfa.add_start_state(0)
    enfa.add_final_state(N)
    try:
        regex = enfa.to_regex()
    except RecursionError as exc:
        print("to_regex() on a chain of %d states raised RecursionError: %s"
              % (N + 1, exc))
        return 1
    for word in (["a"] * N, ["a"] * (N - 1), ["a"] * (N + 1), [],
                 ["a"] * (N - 1) + ["b"]):
        try:
            observed = regex.accepts(word)
        except RecursionError as exc:
            print("to_regex().accepts raised RecursionError: %s" % exc)
            return 1
        if observed != oracle(word):
            print("word of length %d: expected %s, observed %s"
                  % (len(word), oracle(word), observed))
            return 1
    print("ok")
    return 0


if __name__ == "__main__":
    sys.exit(main())
