"""C06 defect 2: to_regex() renders every symbol with str(), so an automaton
over non-string tokens (here the integers 0 and 1, a usual way of writing a
binary alphabet) gets a regex over the *strings* "0" and "1".  The regex (and
the automaton rebuilt from it) rejects every non-empty word of the original
language, and enfa.is_equivalent_to(round trip) is False.
"""
import itertools
import sys

from pyformlang.finite_automaton import EpsilonNFA

ALPHABET = [0, 1]
# binary words with an even number of 1, written with integer symbols
EDGES = [("even", 0, "even"), ("even", 1, "odd"),
         ("odd", 0, "odd"), ("odd", 1, "even")]
STARTS, FINALS = {"even"}, {"even"}


def oracle(word):
    """ Independent NFA simulation """
    current = set(STARTS)
    for letter in word:
        current = {t for (s, a, t) in EDGES
                   if s in current and a == letter and type(a) is type(letter)}
    return bool(current & FINALS)


def main():
    enfa = EpsilonNFA()
    for s_from, symb, s_to in EDGES:
        enfa.add_transition(s_from, symb, s_to)
    for state in STARTS:
        enfa.add_start_state(state)
    for state in FINALS:
        enfa.add_final_state(state)
    regex = enfa.to_regex()
    back = regex.to_epsilon_nfa()
    failures = []
    for length in range(5):
        for word in itertools.product(ALPHABET, repeat=length):
            word = list(word)
            expected = oracle(word)
            if enfa.accepts(word) != expected:
                failures.append(("enfa.accepts itself", word, expected))
            if regex.accepts(word) != expected:
                failures.append(("to_regex().accepts", word, expected))
            if back.accepts(word) != expected:
                failures.append(("to_regex().to_epsilon_nfa().accepts",
                                 word, expected))
    if not enfa.is_equivalent_to(back):
        failures.append(("enfa.is_equivalent_to(round trip)", "-", True))
    if failures:
        print("regex produced by to_regex():", regex)
        print("%d wrong answers, the first ones:" % len(failures))
        for what, word, expected in failures[:6] + failures[-1:]:
            print("%s(%r): expected %s, observed %s"
                  % (what, word, expected, not expected))
        return 1
    print("ok")
    return 0


if __name__ == "__main__":
    sys.exit(main())
