"""C06 defect 1: to_regex() turns a real symbol whose text is "ɛ" into an
epsilon transition, so the regex accepts words the automaton rejects.

"ɛ" is not a regex metacharacter (Regex("ɛ") parses it as an ordinary symbol)
and contains no blank.
"""
import itertools
import sys

from pyformlang.finite_automaton import EpsilonNFA, Symbol

SYM = Symbol("ɛ")          # an ordinary, non-epsilon symbol
B = Symbol("b")
ALPHABET = [SYM, B]

# 0 --ɛ--> 1 --b--> 2      start 0, final 2      language = { [ɛ, b] }
EDGES = [(0, SYM, 1), (1, B, 2)]
STARTS, FINALS = {0}, {2}


def oracle(word):
    """ Independent NFA simulation (no epsilon transitions in this input) """
    current = set(STARTS)
    for letter in word:
        current = {t for (s, a, t) in EDGES if s in current and a is letter}
    return bool(current & FINALS)


def main():
    enfa = EpsilonNFA()
    for s_from, symb, s_to in EDGES:
        enfa.add_transition(s_from, symb, s_to)
    for state in STARTS:
        enfa.add_start_state(state)
    for state in FINALS:
        enfa.add_final_state(state)
    regex = enfa.to_regex()
    back = regex.to_epsilon_nfa()
    failures = []
    for length in range(4):
        for word in itertools.product(ALPHABET, repeat=length):
            word = list(word)
            expected = oracle(word)
            if enfa.accepts(word) != expected:
                failures.append(("enfa.accepts itself", word, expected))
            if regex.accepts(word) != expected:
                failures.append(("to_regex().accepts", word, expected))
            if back.accepts(word) != expected:
                failures.append(("to_regex().to_epsilon_nfa().accepts",
                                 word, expected))
    if failures:
        print("regex produced by to_regex():", regex)
        for what, word, expected in failures:
            print("%s(%r): expected %s, observed %s"
                  % (what, word, expected, not expected))
        return 1
    print("ok")
    return 0


if __name__ == "__main__":
    sys.exit(main())
