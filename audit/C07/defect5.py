"""C07 defect 5: a range inside a set that runs over the newline character
(only possible when it starts at the tab character) gets the empty word in
place of the newline.

Oracle: re.fullmatch.  Exits 1 when PythonRegex disagrees with it.
"""
import re
import string
import sys

from pyformlang.regular_expression import PythonRegex

PATTERNS = ["[\t-\r]", "[\t- ]", "a[\t-\r]b", "[\t-\r]+"]
WORDS = [""] + list(string.printable) + ["ab", "a\nb", "a\tb", "\n\n", "\t\n\r"]

failures = []
for pattern in PATTERNS:
    compiled = re.compile(pattern)
    regex = PythonRegex(pattern)
    for word in WORDS:
        expected = compiled.fullmatch(word) is not None
        observed = regex.accepts(word)
        if expected != observed:
            failures.append((pattern, word, expected, observed))

for pattern, word, expected, observed in failures:
    print("pattern %r, string %r: re.fullmatch says %s, PythonRegex.accepts says %s"
          % (pattern, word, expected, observed))
if failures:
    sys.exit(1)
print("ok")
