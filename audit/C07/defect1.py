"""C07 defect 1: a negated character set never matches the newline character.

Oracle: re.fullmatch.  Exits 1 when PythonRegex disagrees with it.
"""
import re
import string
import sys

from pyformlang.regular_expression import PythonRegex

PATTERNS = [r"[^a]", r"[^\d]", r"[^a-z0-9]", r"x[^y]z", r"[^\w]+", r"([^,]|,)*"]
WORDS = [""] + list(string.printable) + ["\n\n", "x\nz", "a\n", "\n,\n", "xyz"]

failures = []
for pattern in PATTERNS:
    compiled = re.compile(pattern)
    regex = PythonRegex(pattern)
    for word in WORDS:
        expected = compiled.fullmatch(word) is not None
        observed = regex.accepts(word)
        if expected != observed:
            failures.append((pattern, word, expected, observed))

for pattern, word, expected, observed in failures:
    print("pattern %r, string %r: re.fullmatch says %s, PythonRegex.accepts says %s"
          % (pattern, word, expected, observed))
if failures:
    print("%d disagreement(s): negated sets do not contain '\\n'" % len(failures))
    sys.exit(1)
print("ok")
