"""C07 defect 4: a negated set that excludes every printable character is
turned into the empty word instead of into a set that matches nothing.

Oracle: re.fullmatch.  Exits 1 when PythonRegex disagrees with it.
"""
import re
import string
import sys

from pyformlang.regular_expression import PythonRegex

PATTERNS = [
    r"[^\s!-~]",
    r"a[^\s!-~]",
    r"a[^\s!-~]b",
    r"[^\w\s!-/:-@\[-`{-~]",
    r"(a|[^\s!-~])",
    r"[^\s!-~]*",
    r"a[^\s!-~]?",
]
WORDS = list(dict.fromkeys([""] + list(string.printable) + ["a", "ab", "aa", "a b"]))

failures = []
for pattern in PATTERNS:
    compiled = re.compile(pattern)
    regex = PythonRegex(pattern)
    for word in WORDS:
        expected = compiled.fullmatch(word) is not None
        observed = regex.accepts(word)
        if expected != observed:
            failures.append((pattern, word, expected, observed))

for pattern, word, expected, observed in failures:
    print("pattern %r, string %r: re.fullmatch says %s, PythonRegex.accepts says %s"
          % (pattern, word, expected, observed))
if failures:
    sys.exit(1)
print("ok")
