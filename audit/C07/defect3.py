"""C07 defect 3: in a character set, the dash that is the upper end of a range
(as in [+--]) is afterwards taken for a plain dash that may start a new range,
so the ranges that follow are cut differently from Python.

Oracle: re.fullmatch.  Exits 1 when PythonRegex disagrees with it.
"""
import re
import string
import sys
import warnings

from pyformlang.regular_expression import PythonRegex

# Python only emits a FutureWarning ("possible set difference") for these
# patterns, their meaning is well defined
warnings.simplefilter("ignore", FutureWarning)

PATTERNS = [
    r"[+---a]",    # Python: range + to -, then '-', then 'a'
    r"[ ---^]",    # Python: range ' ' to -, then '-', then '^'
    r"[^ ---^]",
    r"[!----~]",   # Python: range ! to -, then range - to ~
    r"[----a]",    # Python: range - to -, then '-', then 'a'
    r"[+---a]+",
]
WORDS = [""] + [c for c in string.printable if c != "\n"] + ["00", "a-", "5~"]

failures = []
for pattern in PATTERNS:
    compiled = re.compile(pattern)
    regex = PythonRegex(pattern)
    wrong = [(w, compiled.fullmatch(w) is not None) for w in WORDS
             if (compiled.fullmatch(w) is not None) != regex.accepts(w)]
    if wrong:
        failures.append(pattern)
        print("pattern %r: %d strings differ, e.g. %s (string, re.fullmatch result)"
              % (pattern, len(wrong), wrong[:5]))

if failures:
    sys.exit(1)
print("ok")
