"""C07 defect 2: a valid pattern with more than about 166 concatenated items
(a long literal, a{200}, x{0,200}, ...) is refused with RecursionError.

Oracle: re.fullmatch.  Exits 1 when PythonRegex raises or disagrees.
Run with the default interpreter recursion limit (1000).
"""
import re
import sys

from pyformlang.regular_expression import PythonRegex

CASES = [
    ("a{200}", ["a" * 200, "a" * 199, "a" * 201, ""]),
    ("a" * 200, ["a" * 200, "a" * 199]),
    ("[ab]{180}c", ["ab" * 90 + "c", "ab" * 90]),
    ("x{0,200}", ["", "x" * 200, "x" * 201]),
    ("|".join("abcdefghij" * 20), ["a", "j", "aa", ""]),
]

failures = 0
for pattern, words in CASES:
    shown = pattern if len(pattern) < 30 else pattern[:27] + "...(%d chars)" % len(pattern)
    compiled = re.compile(pattern)  # Python accepts all of them
    try:
        regex = PythonRegex(pattern)
        for word in words:
            expected = compiled.fullmatch(word) is not None
            observed = regex.accepts(word)
            if expected != observed:
                failures += 1
                print("pattern %s, string of length %d: expected %s, observed %s"
                      % (shown, len(word), expected, observed))
    except RecursionError as exc:
        failures += 1
        print("pattern %s: valid for re.compile, but PythonRegex raised "
              "RecursionError (%s)" % (shown, exc))

if failures:
    sys.exit(1)
print("ok")
