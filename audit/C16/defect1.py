"""C16 defect 1: FST.translate lets an epsilon transition CONSUME an input
token whose value is "epsilon".

An epsilon-input move is a free move: it reads nothing.  So a token "epsilon"
occurring in the input word can only mean one of two things:
  (A) it denotes the empty word and is skipped (this is the convention of
      EpsilonNFA.accepts in the same library), or
  (B) it is a letter that no transition can read (FST.add_transition never
      registers "epsilon" as an input symbol).
The oracle below accepts BOTH readings.  The current code implements neither:
it matches the token against the epsilon transitions and consumes it.
"""
import itertools
import random
import sys

from pyformlang.fst import FST

EPS = "epsilon"


def relation(starts, finals, trans, word):
    """Independent oracle; epsilon transitions never consume a position."""
    word = tuple(word)
    by = {}
    for p, a, q, out in trans:
        by.setdefault((p, a), []).append((q, tuple(out)))
    seen, res = set(), set()
    todo = [(s, 0, ()) for s in starts]
    while todo:
        conf = todo.pop()
        if conf in seen:
            continue
        seen.add(conf)
        s, i, out = conf
        if i == len(word) and s in finals:
            res.add(out)
        if i < len(word) and word[i] != EPS:
            for q, o in by.get((s, word[i]), []):
                todo.append((q, i + 1, out + o))
        for q, o in by.get((s, EPS), []):
            todo.append((q, i, out + o))
    return res


def build(starts, finals, trans):
    fst = FST()
    for s in starts:
        fst.add_start_state(s)
    for s in finals:
        fst.add_final_state(s)
    for p, a, q, out in trans:
        fst.add_transition(p, a, q, list(out))
    return fst


def check(starts, finals, trans, word):
    fst = build(starts, finals, trans)
    got = set(tuple(o) for o in fst.translate(list(word)))
    stripped = [c for c in word if c != EPS]
    reading_a = relation(starts, finals, trans, stripped)   # token skipped
    reading_b = relation(starts, finals, trans, word)       # token unreadable
    if got not in (reading_a, reading_b):
        print("FST: starts", starts, "finals", finals)
        for t in trans:
            print("   ", t)
        print("word", list(word))
        print("  translate gives           ", sorted(got))
        print("  expected (token skipped)  ", sorted(reading_a))
        print("  or (token unreadable)     ", sorted(reading_b))
        return False
    return True


def main():
    ok = True
    # hand-made: 0 is start and final, 1 is final, free move 0 -> 1 writes x
    ok &= check([0], [0, 1], [(0, EPS, 1, ("x",))], [EPS])
    # the same word is handled differently depending on free moves around
    ok &= check([0], [1], [(0, EPS, 1, ())], [EPS, EPS])
    if ok:
        rng = random.Random(16)
        for _ in range(300):
            n = rng.randint(1, 3)
            states = list(range(n))
            starts = [s for s in states if rng.random() < 0.5]
            finals = [s for s in states if rng.random() < 0.5]
            trans = []
            for _ in range(rng.randint(0, 5)):
                a = rng.choice(["a", EPS])
                out = () if a == EPS else (rng.choice("xy"),)
                trans.append((rng.choice(states), a, rng.choice(states), out))
            for ln in range(1, 4):
                for word in itertools.product(["a", EPS], repeat=ln):
                    if EPS in word and not check(starts, finals, trans, word):
                        ok = False
                        break
                if not ok:
                    break
            if not ok:
                break
    if not ok:
        print("DEFECT: an epsilon transition consumed the input token "
              "'epsilon'")
        return 1
    print("ok")
    return 0


if __name__ == "__main__":
    sys.exit(main())
