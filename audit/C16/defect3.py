"""C16 defect 3: the marker "epsilon" inside the outputs of a transition is
written literally by translate, although the FST itself does not count it
as an output symbol.

add_transition treats "epsilon" in output_symbols as the empty-word marker
(it is the only value that is NOT added to fst.output_symbols, exactly like
"epsilon" on the input side is not added to fst.input_symbols).  translate
nevertheless emits the token, so the produced words are not words over the
output alphabet of the transducer.  With the same marker on an epsilon
self-loop, which "writes nothing", translate never terminates.

The check is neutral about the repair: every symbol of every produced word
must belong to fst.output_symbols (true if translate drops the marker, and
also true if add_transition starts to count "epsilon" as a real symbol).
"""
import itertools
import sys

from pyformlang.fst import FST


def main():
    fst = FST()
    fst.add_start_state("q0")
    fst.add_final_state("q1")
    fst.add_transition("q0", "a", "q1", ["epsilon"])
    fst.add_transition("q1", "b", "q1", ["x", "epsilon", "y"])
    bad = 0
    for length in range(4):
        for word in itertools.product("ab", repeat=length):
            for out in fst.translate(list(word)):
                foreign = [s for s in out if s not in fst.output_symbols]
                if foreign:
                    print("translate(%r) gives %r, but %r is not in "
                          "fst.output_symbols = %r"
                          % (list(word), out, foreign,
                             sorted(fst.output_symbols)))
                    bad += 1
    if bad:
        print("DEFECT: translate writes the empty-word marker 'epsilon' "
              "as if it were an output symbol")
        return 1
    print("ok")
    return 0


if __name__ == "__main__":
    sys.exit(main())
