"""C16 defect 2: FST.translate raises TypeError when the outputs of a
transition were given as a tuple (or any iterable other than a list).

add_transition / add_transitions document ``output_symbols : iterable of
Any`` and accept the tuple (they iterate over it to fill output_symbols);
union / concatenate / kleene_star also go through.  translate then does
``generated + output_string`` with generated a list and crashes.
"""
import itertools
import sys

from pyformlang.fst import FST

EPS = "epsilon"


def relation(starts, finals, trans, word):
    word = tuple(word)
    by = {}
    for p, a, q, out in trans:
        by.setdefault((p, a), []).append((q, tuple(out)))
    seen, res = set(), set()
    todo = [(s, 0, ()) for s in starts]
    while todo:
        conf = todo.pop()
        if conf in seen:
            continue
        seen.add(conf)
        s, i, out = conf
        if i == len(word) and s in finals:
            res.add(out)
        if i < len(word):
            for q, o in by.get((s, word[i]), []):
                todo.append((q, i + 1, out + o))
        for q, o in by.get((s, EPS), []):
            todo.append((q, i, out + o))
    return res


def main():
    trans = [("q0", "a", "q1", ("x", "y")),
             ("q1", "b", "q1", ("z",)),
             ("q1", EPS, "q2", ()),
             ("q2", "a", "q0", ())]
    starts, finals = ["q0"], ["q1", "q2"]
    fst = FST()
    fst.add_start_state("q0")
    fst.add_final_state("q1")
    fst.add_final_state("q2")
    fst.add_transitions(trans)          # outputs are tuples
    bad = 0
    candidates = [("fst", fst, lambda w: relation(starts, finals, trans, w))]
    try:
        candidates.append(
            ("fst.union(fst)", fst.union(fst),
             lambda w: relation(starts, finals, trans, w)))
    except Exception as exc:  # pylint: disable=broad-except
        print("union raised", type(exc).__name__, exc)
        bad += 1
    for name, obj, oracle in candidates:
        for length in range(4):
            for word in itertools.product("ab", repeat=length):
                expected = oracle(word)
                try:
                    got = set(tuple(o) for o in obj.translate(list(word)))
                except Exception as exc:  # pylint: disable=broad-except
                    print("%s.translate(%r) raised %s: %s; expected %r"
                          % (name, list(word), type(exc).__name__, exc,
                             sorted(expected)))
                    bad += 1
                    break
                if got != expected:
                    print("%s.translate(%r) = %r, expected %r"
                          % (name, list(word), sorted(got), sorted(expected)))
                    bad += 1
            else:
                continue
            break
    if bad:
        print("DEFECT: transitions whose outputs are a tuple cannot be "
              "translated")
        return 1
    print("ok")
    return 0


if __name__ == "__main__":
    sys.exit(main())
