"""C16 defect 4: to_fst() is not the identity on the language when the
automaton has an ordinary letter whose value is the text "epsilon".

Symbol("epsilon") is NOT an epsilon move for the automaton (only the class
Epsilon is): the automaton below accepts the one-letter word
[Symbol("epsilon")] and rejects the empty word.  to_fst() copies the value
of the symbol, and FST reads the text "epsilon" as a free move, so the
transducer relates the empty word (not in the language) to ['epsilon'].
"""
import itertools
import sys

from pyformlang.finite_automaton import EpsilonNFA, Symbol


def nfa_accepts(starts, finals, trans, word):
    """own oracle, no epsilon moves in this automaton"""
    cur = set(starts)
    for c in word:
        cur = {q for p, a, q in trans if p in cur and a == c}
    return bool(cur & set(finals))


def regex_variant():
    """the same letter, obtained from the regex \\epsilon (escaped = letter)"""
    from pyformlang.regular_expression import Regex
    enfa = Regex("\\epsilon b").to_epsilon_nfa()
    if enfa.accepts([]) or enfa.accepts(["b"]):
        return 0   # regex semantics changed, nothing to compare
    try:
        fst = enfa.to_fst()
    except ValueError:
        return 0
    bad = 0
    for word in ([], ["b"]):
        got = list(fst.translate(word))
        if got:
            print("Regex('\\epsilon b'): automaton rejects %r but "
                  "to_fst().translate gives %r" % (word, got))
            bad += 1
    return bad


def main():
    eps_letter = Symbol("epsilon")
    letter_b = Symbol("b")
    trans = [(0, eps_letter, 1), (1, letter_b, 0)]
    enfa = EpsilonNFA()
    enfa.add_start_state(0)
    enfa.add_final_state(1)
    for p, a, q in trans:
        enfa.add_transition(p, a, q)
    try:
        fst = enfa.to_fst()
    except ValueError as exc:
        # an explicit refusal is an acceptable repair: FST has no way to
        # spell an input letter "epsilon"
        print("to_fst refuses the automaton:", exc)
        return 0
    bad = 0
    if not enfa.accepts([eps_letter]) or enfa.accepts([]):
        print("note: the automaton no longer treats Symbol('epsilon') as a "
              "letter; following the automaton")
    for length in range(4):
        # only words WITHOUT the letter: none of them is in the language
        # (keeps this independent of how translate treats a token "epsilon"
        # inside the input word, which is defect 1)
        for word in itertools.product([letter_b], repeat=length):
            word = list(word)
            in_language = nfa_accepts([0], [1], trans, word)
            if in_language != enfa.accepts(word):
                # the automaton itself changed its mind about the letter:
                # follow the automaton, it defines the language
                in_language = enfa.accepts(word)
            values = [s.value for s in word]
            got = []
            for out in fst.translate(values):
                if out not in got:
                    got.append(out)
            expected = [values] if in_language else []
            if got != expected:
                print("word %r: automaton accepts = %s, to_fst().translate "
                      "gives %r, expected %r"
                      % (values, in_language, got, expected))
                bad += 1
    bad += regex_variant()
    if bad:
        print("DEFECT: to_fst() turned the letter Symbol('epsilon') into a "
              "free move")
        return 1
    print("ok")
    return 0


if __name__ == "__main__":
    sys.exit(main())
