"""Core of the verification harness: TLC runs, trace judging, replay pool, verdicts, evidence.

Exit codes of a check: 0 held (possibly KNOWN-FINDING lines), 1 VIOLATION, 2 machinery failure.
"""
import hashlib
import importlib
import json
import os
import re
import shutil
import subprocess
import sys
import time
from concurrent.futures import ThreadPoolExecutor

from . import tlaparse

ROOT = os.path.dirname(os.path.dirname(os.path.abspath(__file__)))
SPEC = os.path.join(ROOT, "spec")
WORK = os.path.join(ROOT, ".work")
# The checks import pyformlang from /repo's working tree.  VERIF_REPO points them at another checkout instead (used by
# tools/seedcheck.py --scratch to evaluate a seeded change in a scratch worktree while /repo is in use).
REPO = os.environ.get("VERIF_REPO", "/repo")
PYPATH = ROOT if REPO == "/repo" else REPO + os.pathsep + ROOT
if REPO != "/repo":
    sys.path.insert(0, REPO)
EVID = os.path.join(ROOT, "evidence") if REPO == "/repo" else os.path.join(WORK, "evidence-scratch")   # evidence/ is for /repo only
REPLAYS = os.path.join(ROOT, "replays")
PY = "/venv/bin/python"
JAR = "/opt/veriftools/tla/tla2tools.jar:/opt/veriftools/tla/CommunityModules-deps.jar"
NCPU = min(16, os.cpu_count() or 4)


class Machinery(Exception):
    """Failure of the machinery itself (never reported as a violation)."""


def log(*a):
    print(*a, file=sys.stderr, flush=True)


# ---------------------------------------------------------------------------- TLC

_JTMP = []


def _jtmp():
    """TLC leaves an empty tlc-<n> directory in java.io.tmpdir per run: keep them under .work and remove them at exit."""
    if not _JTMP:
        import atexit
        import shutil
        d = os.path.join(ROOT, ".work", "jtmp-%d" % os.getpid())
        os.makedirs(d, exist_ok=True)
        _JTMP.append(d)
        atexit.register(shutil.rmtree, d, True)
    return "-Djava.io.tmpdir=" + _JTMP[0]


def java_cmd(fast, xmx="3g"):
    if fast:
        return ["java", _jtmp(), "-XX:+UseSerialGC", "-XX:CICompilerCount=2", "-XX:TieredStopAtLevel=1",
                "-Xmx" + xmx, "-Xss16m", "-cp", JAR, "tlc2.TLC"]
    return ["java", _jtmp(), "-XX:+UseParallelGC", "-XX:ParallelGCThreads=4", "-Xmx" + xmx, "-Xss16m",
            "-cp", JAR, "tlc2.TLC"]


_STATS = re.compile(r"(\d+) states generated, (\d+) distinct states found")
_SPEC_DIRS = ["sem", "api", "algo", "trace", "mc", "gen"]


def _stage(work, module):
    """Copy every .tla under spec/ (flat namespace) into a scratch directory for TLC."""
    os.makedirs(work, exist_ok=True)
    for d in _SPEC_DIRS:
        p = os.path.join(SPEC, d)
        if not os.path.isdir(p):
            continue
        for f in os.listdir(p):
            if f.endswith(".tla"):
                shutil.copy(os.path.join(p, f), os.path.join(work, f))
    if not os.path.exists(os.path.join(work, module + ".tla")):
        raise Machinery("no such module " + module)


def run_tlc(module, cfg, work, workers=NCPU, extra=(), env=None, timeout=1800, fast=False, xmx="4g"):
    """Run TLC on spec module with the given cfg text.  Returns dict(out, generated, distinct, ok, rc)."""
    _stage(work, module)
    with open(os.path.join(work, module + ".cfg"), "w") as f:
        f.write(cfg)
    cmd = java_cmd(fast, xmx) + ["-workers", str(workers), "-metadir", os.path.join(work, "meta-" + module),
                                 "-noGenerateSpecTE", "-config", module + ".cfg"] + list(extra) + [module + ".tla"]
    e = dict(os.environ)
    e.pop("JAVA_TOOL_OPTIONS", None)
    if env:
        e.update(env)
    t0 = time.time()
    try:
        p = subprocess.run(cmd, cwd=work, env=e, stdout=subprocess.PIPE, stderr=subprocess.STDOUT,
                           timeout=timeout, text=True, errors="replace")
    except subprocess.TimeoutExpired as ex:
        raise Machinery("TLC timeout on %s after %ss" % (module, timeout)) from ex
    out = p.stdout
    gen = dist = 0
    for m in _STATS.finditer(out):
        gen, dist = int(m.group(1)), int(m.group(2))
    ok = "Model checking completed. No error has been found." in out or \
         ("Finished in" in out and "Error:" not in out and p.returncode == 0)
    shutil.rmtree(os.path.join(work, "meta-" + module), ignore_errors=True)
    return dict(out=out, generated=gen, distinct=dist, ok=ok, rc=p.returncode, wall=time.time() - t0)


def violated_invariants(out):
    return re.findall(r"Invariant (\w+) is violated", out) + \
        re.findall(r"Action property (\w+) is violated", out)


def model_check(runs, work, stats):
    """runs: list of dict(name, module, cfg, expect='ok' | ('violates', Inv), workers, timeout, extra).
    A run whose outcome differs from `expect` is a machinery failure (the spec disagrees with itself
    or with the recorded expectation) -- never a property violation."""
    for r in runs:
        res = run_tlc(r["module"], r["cfg"], os.path.join(work, "mc-" + r["name"]),
                      workers=r.get("workers", NCPU), extra=r.get("extra", ()), timeout=r.get("timeout", 1800))
        stats["states"] += res["distinct"]
        stats["transitions"] += res["generated"]
        exp = r.get("expect", "ok")
        entry = dict(name=r["name"], module=r["module"], distinct=res["distinct"], generated=res["generated"],
                     wall_s=round(res["wall"], 1), expect=exp if isinstance(exp, str) else list(exp))
        if exp == "ok":
            if not res["ok"]:
                raise Machinery("model run %s failed:\n%s" % (r["name"], res["out"][-3000:]))
            entry["result"] = "no error"
        else:
            inv = exp[1]
            got = violated_invariants(res["out"])
            if inv not in got:
                raise Machinery("model run %s: expected violation of %s, got %s\n%s"
                                % (r["name"], inv, got, res["out"][-2000:]))
            entry["result"] = "violates " + inv + " (expected: %s)" % r.get("why", "models a recorded defect")
        stats["model_runs"].append(entry)
        log("  [M] %-28s %8d distinct %9d generated %6.1fs  %s" %
            (r["name"], res["distinct"], res["generated"], res["wall"], entry["result"]))
        shutil.rmtree(os.path.join(work, "mc-" + r["name"]), ignore_errors=True)


def tlc_dump(module, cfg, work, workers=NCPU, timeout=1800, stats=None, name=None, keep=None):
    """Run a generator configuration with -dump and return the list of state dicts (keep=(k, r): a deterministic
    1:k sample chosen by the hash of the state text, taken before parsing)."""
    d = os.path.join(work, "gen-" + (name or module))
    res = run_tlc(module, cfg, d, workers=workers, extra=["-dump", "states"], timeout=timeout)
    if not res["ok"]:
        raise Machinery("generator %s failed:\n%s" % (module, res["out"][-3000:]))
    count = []
    states = list(tlaparse.iter_dump(os.path.join(d, "states.dump"), keep=keep, count=count))
    if count[0] != res["distinct"]:
        raise Machinery("dump of %s: %d states parsed, TLC reports %d" % (module, count[0], res["distinct"]))
    if stats is not None:
        stats["states"] += res["distinct"]
        stats["transitions"] += res["generated"]
        stats["model_runs"].append(dict(name="gen:" + (name or module), module=module, distinct=res["distinct"],
                                        generated=res["generated"], wall_s=round(res["wall"], 1),
                                        result="generator, all states dumped and replayed" if keep is None else
                                        "generator, all states dumped, 1:%d of them (by hash of the state text) replayed" % keep[0]))
    log("  [G] %-28s %8d states dumped %6.1fs%s" % (name or module, count[0], res["wall"],
                                                    "" if keep is None else " (%d kept)" % len(states)))
    shutil.rmtree(d, ignore_errors=True)
    return states


def tlc_simulate(module, cfg, work, num, depth, seed, stats=None, timeout=900):
    """Run `-simulate file=` and return a list of behaviours (lists of (action, state))."""
    d = os.path.join(work, "sim-" + module)
    os.makedirs(os.path.join(d, "tr"), exist_ok=True)
    res = run_tlc(module, cfg, d, workers=1, timeout=timeout,
                  extra=["-simulate", "file=" + os.path.join(d, "tr", "b") + ",num=%d" % num,
                         "-depth", str(depth), "-seed", str(seed)])
    if "Error:" in res["out"] and "Finished" not in res["out"]:
        raise Machinery("simulate %s failed:\n%s" % (module, res["out"][-3000:]))
    behaviours = []
    for f in sorted(os.listdir(os.path.join(d, "tr"))):
        behaviours.append(tlaparse.parse_sim_file(os.path.join(d, "tr", f)))
    if stats is not None:
        n = sum(len(b) for b in behaviours)
        stats["states"] += n
        stats["transitions"] += max(0, n - len(behaviours))
        stats["model_runs"].append(dict(name="simulate:" + module, module=module, behaviours=len(behaviours),
                                        depth=depth, wall_s=round(res["wall"], 1), result="behaviours replayed"))
    log("  [G] simulate %-20s %6d behaviours %6.1fs" % (module, len(behaviours), res["wall"]))
    shutil.rmtree(d, ignore_errors=True)
    return behaviours


# ---------------------------------------------------------------------------- replay pool

def replay_pool(driver_name, cases, work, hashseeds=(0,), nproc=NCPU, timeout=3600, extra_env=None):
    """Run driver.replay(case) for every case in sub-processes; returns the list of events.
    Each case gets field `cid`; each event gets `id` = '<cid>.<k>' and `cid`."""
    os.makedirs(work, exist_ok=True)
    nproc = max(1, min(nproc, len(cases)))
    chunks = [[] for _ in range(nproc)]
    for i, c in enumerate(cases):
        chunks[i % nproc].append(c)
    procs = []
    for k, ch in enumerate(chunks):
        inf = os.path.join(work, "cases-%d.jsonl" % k)
        outf = os.path.join(work, "events-%d.jsonl" % k)
        with open(inf, "w") as f:
            for c in ch:
                f.write(json.dumps(c) + "\n")
        e = dict(os.environ)
        e["PYTHONHASHSEED"] = str(hashseeds[k % len(hashseeds)])
        e["PYTHONPATH"] = PYPATH
        e["PYFORMLANG_VERIF"] = "1"
        if extra_env:
            e.update(extra_env)
        p = subprocess.Popen([PY, "-m", "harness.worker", driver_name, inf, outf], cwd=work, env=e,
                             stdout=subprocess.PIPE, stderr=subprocess.PIPE, text=True)
        procs.append((p, outf, e["PYTHONHASHSEED"]))
    events = []
    t0 = time.time()
    for p, outf, hs in procs:
        try:
            so, se = p.communicate(timeout=max(1, timeout - (time.time() - t0)))
        except subprocess.TimeoutExpired as ex:
            for q, _, _ in procs:
                q.kill()
            raise Machinery("replay worker timeout") from ex
        if p.returncode != 0:
            raise Machinery("replay worker failed (rc=%s):\n%s" % (p.returncode, se[-3000:]))
        with open(outf) as f:
            for line in f:
                ev = json.loads(line)
                ev["hashseed"] = hs
                events.append(ev)
    for f in os.listdir(work):
        if f.startswith(("cases-", "events-")):
            os.unlink(os.path.join(work, f))
    return events


# ---------------------------------------------------------------------------- P3: the repository's tests, recorded

def record_tests(test_paths, work, ops, stats=None, timeout=900):
    """Run the repository's own tests under the recorder (harness/record.py) and return the recorded events whose op
    is in `ops`, deduplicated, packaged as cases (the replay of such a case returns its stored events)."""
    d = os.path.join(work, "p3")
    os.makedirs(d, exist_ok=True)
    rec = os.path.join(d, "recorded.ndjson")
    e = dict(os.environ)
    e.update(PYFORMLANG_VERIF="1", VERIF_RECORD_FILE=rec, PYTHONPATH=PYPATH, PYTHONHASHSEED="0")
    test_paths = [REPO + t[len("/repo"):] if t.startswith("/repo/") else t for t in test_paths]
    cmd = [PY, "-m", "pytest", "-q", "-x", "-p", "no:cacheprovider", "-p", "harness.record"] + list(test_paths)
    t0 = time.time()
    p = subprocess.run(cmd, cwd=d, env=e, stdout=subprocess.PIPE, stderr=subprocess.STDOUT, text=True, timeout=timeout)
    m = re.search(r"(\d+) passed", p.stdout)
    if p.returncode != 0 or not m:
        # the repository's tests failing under the recorder is not ours to judge here: no recorded events
        log("  [P3] tests did not pass under the recorder (rc=%s); no recorded events used" % p.returncode)
        shutil.rmtree(d, ignore_errors=True)
        return []
    seen, cases = set(), []
    if os.path.exists(rec):
        with open(rec) as f:
            for line in f:
                ev = json.loads(line)
                if ev.get("op") not in ops or ev.get("raised_in_test"):
                    continue
                k = digest(ev)
                if k in seen:
                    continue
                seen.add(k)
                ev["p3"] = True
                cases.append(dict(recorded=[ev], family="repository-tests"))
    if stats is not None:
        stats["model_runs"].append(dict(name="P3:repository tests under the recorder", tests_passed=int(m.group(1)),
                                        distinct_recorded_events=len(cases), wall_s=round(time.time() - t0, 1),
                                        result="recorded public calls re-judged by the trace specification"))
    log("  [P3] %s tests passed under the recorder, %d distinct recorded calls kept (%.1fs)" % (m.group(1), len(cases), time.time() - t0))
    shutil.rmtree(d, ignore_errors=True)
    return cases


# ---------------------------------------------------------------------------- judging

def judge(trace_module, events, work, nproc=NCPU, timeout=3600, consts="", strip=("hashseed", "case", "meta")):
    """Validate events with the TLA+ trace specification `trace_module` (TLC, one process per chunk).
    Returns (verdicts, nstates): verdicts = dict id -> list of (clause, kind) for kind in FAIL/UNSPEC."""
    if not events:
        return {}, 0
    os.makedirs(work, exist_ok=True)
    _stage(work, trace_module)
    nproc = max(1, min(nproc, (len(events) + 49) // 50))
    # events of one case stay together and in order (trace specs with state, e.g. TraceHist, need that)
    chunks = [[] for _ in range(nproc)]
    slot = {}
    for ev in events:
        c = ev.get("cid")
        if c not in slot:
            slot[c] = len(slot) % nproc
        chunks[slot[c]].append(ev)
    chunks = [c for c in chunks if c]
    nproc = len(chunks)
    cfg = "SPECIFICATION Spec\nINVARIANT Done\nPOSTCONDITION Post\nCHECK_DEADLOCK FALSE\n" + consts
    with open(os.path.join(work, trace_module + ".cfg"), "w") as f:
        f.write(cfg)

    def one(k):
        tf = os.path.join(work, "trace-%d.ndjson" % k)
        of = os.path.join(work, "verdict-%d.json" % k)
        with open(tf, "w") as f:
            for ev in chunks[k]:
                f.write(json.dumps({a: b for a, b in ev.items() if a not in strip}) + "\n")
        e = dict(os.environ)
        e.pop("JAVA_TOOL_OPTIONS", None)
        e["TRACE_FILE"] = tf
        e["OUT_FILE"] = of
        cmd = java_cmd(True, "3g") + ["-workers", "1", "-metadir", os.path.join(work, "meta-%d" % k),
                                      "-noGenerateSpecTE", "-config", trace_module + ".cfg", trace_module + ".tla"]
        try:
            p = subprocess.run(cmd, cwd=work, env=e, stdout=subprocess.PIPE, stderr=subprocess.STDOUT,
                               timeout=timeout, text=True, errors="replace")
        except subprocess.TimeoutExpired as ex:
            raise Machinery("trace judging timeout (%s)" % trace_module) from ex
        out = p.stdout
        if "Model checking completed. No error has been found." not in out or not os.path.exists(of):
            raise Machinery("trace validation by %s failed (chunk %d):\n%s" % (trace_module, k, out[-4000:]))
        m = None
        for m in _STATS.finditer(out):
            pass
        dist = int(m.group(2)) if m else 0
        if dist != len(chunks[k]) + 1:
            raise Machinery("trace %s chunk %d: %d states for %d events (log not consumed)" %
                            (trace_module, k, dist, len(chunks[k])))
        with open(of) as f:
            res = json.load(f)
        shutil.rmtree(os.path.join(work, "meta-%d" % k), ignore_errors=True)
        os.unlink(tf)
        os.unlink(of)
        return res, dist

    verdicts = {}
    nstates = 0
    with ThreadPoolExecutor(max_workers=nproc) as ex:
        for res, dist in ex.map(one, range(nproc)):
            nstates += dist
            for item in res:
                verdicts.setdefault(item[0], []).append((item[1], item[2]))
    return verdicts, nstates


# ---------------------------------------------------------------------------- known findings

def load_findings():
    p = os.path.join(ROOT, "known_findings.json")
    if not os.path.exists(p):
        return []
    with open(p) as f:
        return json.load(f)["findings"]


def match_finding(findings, prop, op, clause, feats):
    for fd in findings:
        if fd.get("status") != "known" or fd["property"] != prop:
            continue
        if fd.get("op") not in (None, op) or fd.get("clause") not in (None, clause):
            continue
        when = fd.get("when", {})
        if all(feats.get(k) == v for k, v in when.items()):
            return fd
    return None


# ---------------------------------------------------------------------------- evidence

def write_evidence(prop, tier, seed, stats, coverage_extra, violations, wall, assumptions):
    os.makedirs(EVID, exist_ok=True)
    cov = dict(states=stats["states"], transitions=stats["transitions"],
               traces_validated_against_impl=stats.get("traces", 0),
               samples=stats.get("samples", [])[:5] or ["(no case generated)"],
               model_runs=stats["model_runs"])
    cov.update(coverage_extra)
    ev = dict(property_id=prop, tier=tier, seed=seed, level="model_checking", coverage=cov,
              assumptions=assumptions, wall_s=round(wall, 1), violations=violations)
    tmp = os.path.join(EVID, prop + ".json.tmp")
    with open(tmp, "w") as f:
        json.dump(ev, f, indent=1, sort_keys=True)
    os.replace(tmp, os.path.join(EVID, prop + ".json"))


def digest(x):
    return hashlib.sha1(json.dumps(x, sort_keys=True).encode()).hexdigest()[:10]


# ---------------------------------------------------------------------------- the generic check

def new_stats():
    return dict(states=0, transitions=0, model_runs=[], traces=0, samples=[])


def run_check(prop, tier, seed, replay_file=None):
    drv = importlib.import_module("harness.drivers." + prop.lower())
    work = os.path.join(WORK, "%s-%d" % (prop, os.getpid()))
    shutil.rmtree(work, ignore_errors=True)
    # scratch left by a run that was killed (its process is gone)
    for d in (os.listdir(WORK) if os.path.isdir(WORK) else []):
        m = re.match(r".*-(\d+)$", d)
        if m and not os.path.exists("/proc/%s" % m.group(1)):
            shutil.rmtree(os.path.join(WORK, d), ignore_errors=True)
    os.makedirs(work)
    t0 = time.time()
    stats = new_stats()
    try:
        if replay_file:
            with open(replay_file) as f:
                rp = json.load(f)
            cases = [rp["case"]]
            hashseeds = (int(rp.get("hashseed", 0)),)
        else:
            log("[%s] tier=%s seed=%d" % (prop, tier, seed))
            model_check(drv.model_runs(tier), work, stats)
            cases = drv.generate(tier, seed, work, stats)
            hashseeds = drv.hashseeds(tier) if hasattr(drv, "hashseeds") else (0,)
        for i, c in enumerate(cases):
            c["cid"] = "c%d" % i
        t1 = time.time()
        # replay and judge in batches: memory stays bounded however large the (thorough) family is
        findings = load_findings()
        case_by = {c["cid"]: c for c in cases}
        new, known, unspec = [], {}, 0
        clause_counts = {}
        advisory = {}
        n_events = 0
        sample_events = []
        keep = {}                      # id -> event, only for events with a failed clause
        distinct = set()
        t_replay = t_judge = 0.0
        BATCH = getattr(drv, "BATCH", 20000)       # cases per batch; drivers with many events per case choose less
        for b0 in range(0, len(cases), BATCH):
            tb = time.time()
            events = replay_pool(prop.lower(), cases[b0:b0 + BATCH], os.path.join(work, "replay"), hashseeds=hashseeds)
            t_replay += time.time() - tb
            tb = time.time()
            by_trace = {}
            for ev in events:
                by_trace.setdefault(ev.get("trace", drv.TRACE), []).append(ev)
            verdicts = {}
            for tm, evs in by_trace.items():
                v, n = judge(tm, evs, os.path.join(work, "judge-" + tm), consts=getattr(drv, "TRACE_CONSTS", ""))
                verdicts.update(v)
                stats["states"] += n
                stats["transitions"] += max(0, n - 1)
            t_judge += time.time() - tb
            n_events += len(events)
            by_id = {ev["id"]: ev for ev in events}
            if events and len(sample_events) < 2:
                sample_events.append(events[len(events) // 2])
            nontrivial = getattr(drv, "nontrivial", None)
            for ev in events:
                if nontrivial is None or nontrivial(ev):
                    distinct.add(digest({k: v for k, v in ev.items() if k not in ("id", "cid", "hashseed", "meta")}))
            for eid, items in sorted(verdicts.items()):
                ev = by_id[eid]
                for clause, kind in items:
                    if kind == "UNSPEC":
                        unspec += 1
                        continue
                    if kind == "ADVISORY":
                        advisory[clause] = advisory.get(clause, 0) + 1
                        continue
                    if kind == "SPECDEFECT":
                        raise Machinery("the specification disagrees with its authoritative oracle on event %s: %s\n%s"
                                        % (eid, clause, json.dumps({k: v for k, v in ev.items() if k != "meta"})[:600]))
                    clause_counts[clause] = clause_counts.get(clause, 0) + 1
                    feats = drv.features(ev, clause) if hasattr(drv, "features") else {}
                    owner = drv.owner(ev, clause) if hasattr(drv, "owner") else prop
                    fd = match_finding(findings, owner, ev.get("op"), clause, feats)
                    if fd is not None and owner == prop:
                        known.setdefault(fd["id"], []).append(eid)
                    elif owner != prop:
                        stats.setdefault("foreign", {}).setdefault(owner + ":" + clause, 0)
                        stats["foreign"][owner + ":" + clause] += 1
                    else:
                        new.append((eid, clause, feats))
                        keep[eid] = ev
            del events, by_id, verdicts, by_trace
        by_id = keep
        # confirmation pass: every case with a failed clause is executed again, alone on fewer processes and with three
        # times the call budget, under the hash seed it failed with; a failure that does not recur (a budget exhausted on a
        # loaded machine) is not reported.  Matching is by (case, call, clause).
        unconfirmed = 0
        if new and not replay_file:
            cids = []
            for eid, clause, feats in new:
                cid = by_id[eid].get("cid")
                if cid not in cids:
                    cids.append(cid)
            cids = cids[:120]         # the others are reported without re-execution
            by_seed = {}
            for eid, clause, feats in new:
                ev = by_id[eid]
                if ev.get("cid") in cids:
                    by_seed.setdefault(str(ev.get("hashseed", "0")), set()).add(ev.get("cid"))
            again = set()
            for hs, cs in sorted(by_seed.items()):
                evs2 = replay_pool(prop.lower(), [case_by[c] for c in sorted(cs)], os.path.join(work, "confirm"),
                                   hashseeds=(int(hs),), nproc=8, extra_env={"VERIF_TIMEOUT_SCALE": "3"})
                by_trace = {}
                for ev in evs2:
                    by_trace.setdefault(ev.get("trace", drv.TRACE), []).append(ev)
                id2 = {ev["id"]: ev for ev in evs2}
                for tm, evs in by_trace.items():
                    v, _ = judge(tm, evs, os.path.join(work, "judge2-" + tm), consts=getattr(drv, "TRACE_CONSTS", ""))
                    for eid, items in v.items():
                        for clause, kind in items:
                            if kind not in ("UNSPEC", "ADVISORY", "SPECDEFECT"):
                                again.add((id2[eid].get("cid"), id2[eid].get("op"), clause))
            kept = []
            for eid, clause, feats in new:
                ev = by_id[eid]
                if ev.get("cid") in cids and (ev.get("cid"), ev.get("op"), clause) not in again:
                    unconfirmed += 1
                    clause_counts[clause] -= 1
                    continue
                kept.append((eid, clause, feats))
            if unconfirmed:
                print("NOTE property=%s %d failed clause(s) did not recur when the case was executed again with a larger call "
                      "budget: not reported" % (prop, unconfirmed))
            new = kept
        t2 = t1 + t_replay
        t3 = t2 + t_judge
        log("  [R] %d cases -> %d events replayed on the implementation in %.1fs" % (len(cases), n_events, t_replay))
        log("  [V] %d events judged by TLC in %.1fs" % (n_events, t_judge))
        stats["traces"] = n_events
        events = sample_events
        os.makedirs(REPLAYS, exist_ok=True)
        if not replay_file:
            for f in os.listdir(REPLAYS):       # replays of earlier runs of this property are stale
                if f.startswith(prop + "-"):
                    os.unlink(os.path.join(REPLAYS, f))
        for fid, eids in sorted(known.items()):
            fd = next(f for f in findings if f["id"] == fid)
            print("KNOWN-FINDING: property=%s %s: %s (%d events this run)" % (prop, fid, fd["what"], len(eids)))
        for clause, n in sorted(advisory.items()):
            print("NOTE property=%s step-level conformance: %d recorded runs deviate from the algorithm specification (clause %s, advisory)"
                  % (prop, n, clause))
        reported = set()
        nviol = 0
        for eid, clause, feats in new:
            ev = by_id[eid]
            key = (ev.get("op"), clause)
            nviol += 1
            if key in reported and len(reported) >= 1 and nviol > 40:
                continue
            if key in reported:
                continue
            reported.add(key)
            rp = dict(property=prop, clause=clause, op=ev.get("op"), event=ev, case=case_by.get(ev.get("cid")),
                      hashseed=ev.get("hashseed", "0"), features=feats)
            path = os.path.join(REPLAYS, "%s-%s-%s.json" % (prop, clause.replace(".", "_"), digest(rp["case"])))
            with open(path, "w") as f:
                json.dump(rp, f, indent=1, sort_keys=True)
            print("VIOLATION property=%s replay=%s clause=%s op=%s" % (prop, path, clause, ev.get("op")))
        wall = time.time() - t0
        if not replay_file:
            samples = [dict(case=cases[i]) for i in range(0, len(cases), max(1, len(cases) // 3))][:3]
            if events:
                samples.append(dict(event={k: v for k, v in events[len(events) // 2].items()}))
            stats["samples"] = samples
            cov = dict(cases_replayed=len(cases), events_judged=n_events, unspec_verdicts=unspec,
                       evaluations=n_events, distinct_nontrivial=len(distinct),
                       rule="one evaluation = one recorded public call judged by the trace specification; distinct = distinct "
                            "(call, projected operands, projected result) triples" +
                            ("; non-trivial = " + drv.NONTRIVIAL_RULE if hasattr(drv, "NONTRIVIAL_RULE") else ""),
                       failed_clauses=clause_counts, advisory_step_level_deviations=advisory, known_finding_events={k: len(v) for k, v in known.items()},
                       new_violation_events=nviol, unconfirmed_on_reexecution=unconfirmed, hashseeds=list(hashseeds), exhaustive=drv.exhaustive(tier)
                       if hasattr(drv, "exhaustive") else False,
                       bounds=drv.bounds(tier) if hasattr(drv, "bounds") else "",
                       foreign_clause_failures=stats.get("foreign", {}),
                       phase_wall_s=dict(model_and_generate=round(t1 - t0, 1), replay=round(t2 - t1, 1),
                                         judge=round(t3 - t2, 1)))
            write_evidence(prop, tier, seed, stats, cov, nviol, wall, drv.ASSUMPTIONS)
        log("[%s] done in %.1fs: %d cases, %d events, %d new violations, %d known-finding classes, %d unspec" %
            (prop, wall, len(cases), n_events, nviol, len(known), unspec))
        return 1 if nviol else 0
    finally:
        shutil.rmtree(work, ignore_errors=True)


def main(argv):
    import argparse
    ap = argparse.ArgumentParser()
    ap.add_argument("prop")
    ap.add_argument("--tier", default=os.environ.get("VERIF_TIER", "quick"))
    ap.add_argument("--replay")
    a = ap.parse_args(argv)
    seed = int(os.environ.get("VERIF_SEED", "0") or 0)
    try:
        rc = run_check(a.prop.upper(), a.tier, seed, a.replay)
    except Machinery as e:
        print("MACHINERY-FAILURE property=%s: %s" % (a.prop, e))
        return 2
    return rc
