"""Parser for TLA+ values as printed by TLC (-dump, -simulate file=, PrintT).

Python representation (all hashable):
  set        -> frozenset
  sequence   -> tuple
  record     -> Rec (frozen dict, str keys)
  function   -> Rec (arbitrary keys)       (k :> v @@ k2 :> v2)
  string     -> str, integer -> int, boolean -> bool
"""
import re


class Rec(dict):
    """Immutable, hashable dict used for TLA+ records and functions."""

    def __hash__(self):
        return hash(frozenset(self.items()))

    def __setitem__(self, *a):
        raise TypeError("Rec is immutable")

    def __getattr__(self, k):
        try:
            return self[k]
        except KeyError as e:
            raise AttributeError(k) from e


class ParseError(Exception):
    pass


_ID = re.compile(r"[A-Za-z_][A-Za-z0-9_]*")
_INT = re.compile(r"-?\d+")


class _P:
    def __init__(self, s, i=0):
        self.s, self.i = s, i

    def ws(self):
        s, i = self.s, self.i
        n = len(s)
        while i < n and s[i] in " \t\r\n":
            i += 1
        self.i = i

    def peek(self, k=1):
        return self.s[self.i:self.i + k]

    def expect(self, tok):
        self.ws()
        if not self.s.startswith(tok, self.i):
            raise ParseError("expected %r at %d: %r" % (tok, self.i, self.s[self.i:self.i + 40]))
        self.i += len(tok)

    def value(self):
        self.ws()
        s = self.s
        c = s[self.i] if self.i < len(s) else ""
        if c == "{":
            self.i += 1
            items = self.items("}")
            return frozenset(items)
        if s.startswith("<<", self.i):
            self.i += 2
            items = self.items(">>")
            return tuple(items)
        if c == "[":
            self.i += 1
            return self.record()
        if c == "(":
            self.i += 1
            return self.function()
        if c == '"':
            return self.string()
        m = _INT.match(s, self.i)
        if m:
            self.i = m.end()
            return int(m.group())
        m = _ID.match(s, self.i)
        if m:
            self.i = m.end()
            w = m.group()
            if w == "TRUE":
                return True
            if w == "FALSE":
                return False
            return w  # model value
        raise ParseError("unexpected %r at %d" % (s[self.i:self.i + 30], self.i))

    def items(self, close):
        out = []
        self.ws()
        if self.s.startswith(close, self.i):
            self.i += len(close)
            return out
        while True:
            out.append(self.value())
            self.ws()
            if self.s.startswith(close, self.i):
                self.i += len(close)
                return out
            self.expect(",")

    def string(self):
        s = self.s
        i = self.i + 1
        out = []
        while True:
            c = s[i]
            if c == "\\":
                n = s[i + 1]
                out.append({"n": "\n", "t": "\t", "r": "\r", "f": "\f"}.get(n, n))
                i += 2
            elif c == '"':
                self.i = i + 1
                return "".join(out)
            else:
                out.append(c)
                i += 1

    def record(self):
        d = {}
        self.ws()
        if self.peek() == "]":
            self.i += 1
            return Rec(d)
        while True:
            self.ws()
            m = _ID.match(self.s, self.i)
            if not m:
                raise ParseError("record field at %d" % self.i)
            self.i = m.end()
            self.expect("|->")
            d[m.group()] = self.value()
            self.ws()
            if self.peek() == "]":
                self.i += 1
                return Rec(d)
            self.expect(",")

    def function(self):
        d = {}
        while True:
            k = self.value()
            self.expect(":>")
            d[k] = self.value()
            self.ws()
            if self.peek() == ")":
                self.i += 1
                return Rec(d)
            self.expect("@@")


def parse_value(s, i=0):
    p = _P(s, i)
    v = p.value()
    return v, p.i


def parse(s):
    v, i = parse_value(s)
    if s[i:].strip():
        raise ParseError("trailing text: %r" % s[i:i + 40])
    return v


_VAR = re.compile(r"(?:/\\\s*)?([A-Za-z_][A-Za-z0-9_]*)\s*=\s*")


def parse_state_block(text):
    """'/\\ a = v\\n/\\ b = w' (or a single 'a = v') -> dict"""
    out = {}
    p = _P(text)
    while True:
        p.ws()
        if p.i >= len(text):
            return out
        m = _VAR.match(text, p.i)
        if not m:
            raise ParseError("state block at %d: %r" % (p.i, text[p.i:p.i + 60]))
        p.i = m.end()
        out[m.group(1)] = p.value()


def iter_dump(path, keep=None, count=None):
    """Iterate over the states of a `tlc -dump file` output (file.dump).  keep=(k, r): only the states whose text
    hashes (crc32) to r modulo k are parsed and yielded; count (a one-element list) receives the number of all states."""
    import zlib
    buf = []
    n = 0

    def wanted(text):
        return keep is None or zlib.crc32(text.encode("utf-8")) % keep[0] == keep[1] % keep[0]
    with open(path, encoding="utf-8") as f:
        for line in f:
            if line.startswith("State "):
                if buf:
                    n += 1
                    text = "".join(buf)
                    if wanted(text):
                        yield parse_state_block(text)
                buf = []
            else:
                buf.append(line)
    if buf and "".join(buf).strip():
        n += 1
        text = "".join(buf)
        if wanted(text):
            yield parse_state_block(text)
    if count is not None:
        count.append(n)


_SIMSTATE = re.compile(r"^STATE_(\d+) ==\s*$")


def parse_sim_file(path):
    """`-simulate file=...` behaviour file -> list of (action_name or None, state dict)."""
    steps = []
    action = None
    buf = None
    with open(path, encoding="utf-8") as f:
        for line in f:
            if line.startswith("\\* <") or line.startswith("\\*<"):
                m = re.search(r"<\s*([A-Za-z_0-9]+)", line)
                action = m.group(1) if m else None
            elif _SIMSTATE.match(line):
                buf = []
            elif buf is not None:
                if line.strip() == "" or line.startswith("===="):
                    if buf:
                        steps.append((action, parse_state_block("".join(buf))))
                    buf = None
                    action = None
                else:
                    buf.append(line)
    if buf:
        steps.append((action, parse_state_block("".join(buf))))
    return steps


def to_tla(v):
    """Python value -> TLA+ expression text (inverse of parse)."""
    if isinstance(v, bool):
        return "TRUE" if v else "FALSE"
    if isinstance(v, int):
        return str(v)
    if isinstance(v, str):
        return '"' + v.replace("\\", "\\\\").replace('"', '\\"') + '"'
    if isinstance(v, (frozenset, set)):
        return "{" + ", ".join(sorted(to_tla(x) for x in v)) + "}"
    if isinstance(v, (tuple, list)):
        return "<<" + ", ".join(to_tla(x) for x in v) + ">>"
    if isinstance(v, dict):
        if all(isinstance(k, str) and _ID.fullmatch(k) for k in v) and v:
            return "[" + ", ".join("%s |-> %s" % (k, to_tla(x)) for k, x in v.items()) + "]"
        if not v:
            return "<<>>"
        return "(" + " @@ ".join("%s :> %s" % (to_tla(k), to_tla(x)) for k, x in v.items()) + ")"
    raise TypeError(type(v))


def to_json(v):
    """TLA value (as parsed) -> JSON-able (sets and tuples -> lists, Rec -> dict)."""
    if isinstance(v, (frozenset, set)):
        return sorted((to_json(x) for x in v), key=lambda x: json_key(x))
    if isinstance(v, (tuple, list)):
        return [to_json(x) for x in v]
    if isinstance(v, dict):
        return {str(k): to_json(x) for k, x in v.items()}
    return v


def json_key(x):
    import json
    return json.dumps(x, sort_keys=True)
