"""Replay worker: python -m harness.worker <driver> <cases.jsonl> <events.jsonl>
Runs driver.replay(case) for every case (under the PYTHONHASHSEED chosen by the parent)."""
import importlib
import json
import os
import sys
import tempfile


def main():
    name, inf, outf = sys.argv[1:4]
    sys.setrecursionlimit(10000)
    drv = importlib.import_module("harness.drivers." + name)
    os.chdir(tempfile.mkdtemp(prefix="verifw-", dir=os.path.dirname(inf)))  # library writes *.dot into cwd
    with open(inf) as f, open(outf, "w") as out:
        for line in f:
            case = json.loads(line)
            evs = case["recorded"] if "recorded" in case else drv.replay(case)
            for k, ev in enumerate(evs):
                ev["cid"] = case["cid"]
                ev["id"] = "%s.%d" % (case["cid"], k)
                out.write(json.dumps(ev) + "\n")


if __name__ == "__main__":
    main()
