"""Replay engine for C19: executes a ValueSemantics history on real objects, logging after every call the
answer, the answer of the same call on freshly rebuilt equal objects, and a snapshot of every live object."""
import itertools
import json

from . import guard

WORDS = [list(w) for n in range(4) for w in itertools.product(["a", "b"], repeat=n)]
WORDS2 = [list(w) for n in range(3) for w in itertools.product(["a", "b"], repeat=n)]


# ------------------------------------------------------------------ catalog of root objects
def _fa(kind, trans, starts, finals):
    from . import fa
    a = fa.CLASSES[kind]()
    for p, s, q in trans:
        a.add_transition(p, s, q)
    for s in starts:
        a.add_start_state(s)
    for s in finals:
        a.add_final_state(s)
    return a


def _cfg(text):
    from pyformlang.cfg import CFG
    return CFG.from_text(text)


def _pda(trans, finals):
    from pyformlang.pda import PDA
    p = PDA()
    p.set_start_state("q0")
    p.set_start_stack_symbol("Z")
    for t in trans:
        p.add_transition(*t)
    for f in finals:
        p.add_final_state(f)
    return p


def _fst(trans, starts, finals):
    from pyformlang.fst import FST
    t = FST()
    for x in trans:
        t.add_transition(*x)
    for s in starts:
        t.add_start_state(s)
    for s in finals:
        t.add_final_state(s)
    return t


def _ig(rules):
    import pyformlang.regular_expression  # noqa: F401  (IndexedGrammar.intersection refers to it lazily)
    from pyformlang.indexed_grammar import Rules, IndexedGrammar
    from .drivers.c17 import mk_rules
    return IndexedGrammar(Rules(mk_rules(rules)))


def _regex(text):
    from pyformlang.regular_expression import Regex
    return Regex(text)


CATALOG = {
    "enfa": [
        lambda: _fa("enfa", [("s0", "a", "s1"), ("s1", "epsilon", "s2"), ("s2", "b", "s0"), ("s0", "a", "s2")], ["s0"], ["s2"]),
        lambda: _fa("enfa", [("p", "a", "q"), ("q", "b", "q"), ("p", "epsilon", "r"), ("r", "b", "p")], ["p", "r"], ["q"]),
        lambda: _fa("enfa", [("x", "a", "x"), ("x", "b", "y"), ("y", "a", "z")], ["x"], ["y", "z"]),
        lambda: _fa("enfa", [("0", "a", "1"), ("1", "a", "0"), ("2", "a", "0")], ["2"], ["0", "2"]),
        lambda: _fa("enfa", [("u", "a", "v")], ["u"], []),
    ],
    "dfa": [
        lambda: _fa("dfa", [("s0", "a", "s1"), ("s1", "b", "s0"), ("s1", "a", "s2")], ["s0"], ["s1"]),
        lambda: _fa("dfa", [("p", "a", "p"), ("p", "b", "q"), ("q", "a", "sink"), ("sink", "a", "sink")], ["p"], ["q"]),
        lambda: _fa("dfa", [("x", "a", "y"), ("y", "a", "x")], ["x"], ["x"]),
    ],
    "regex": [lambda: _regex("a b*"), lambda: _regex("(a|b)* a"), lambda: _regex("a* | b a"), lambda: _regex("ab* a"),
              lambda: _regex("$ | a b")],
    "cfg": [
        lambda: _cfg("S -> a S b | $"),
        lambda: _cfg("S -> A B\nA -> a A | $\nB -> b | B b"),
        lambda: _cfg("S -> S S | a | $"),
        lambda: _cfg("S -> a B\nB -> B | b\nC -> c"),
        lambda: _cfg("S -> A b a\nS -> B b a\nA -> a\nB -> b"),
    ],
    "pda": [
        lambda: _pda([("q0", "a", "Z", "q0", ["X", "Z"]), ("q0", "a", "X", "q0", ["X", "X"]), ("q0", "b", "X", "q1", []),
                      ("q1", "b", "X", "q1", []), ("q1", "epsilon", "Z", "q2", [])], ["q2"]),
        lambda: _pda([("q0", "epsilon", "Z", "q0", []), ("q0", "a", "Z", "q1", ["Z"])], ["q1"]),
        lambda: _pda([("q0", "a", "Z", "q0", ["Z", "Z"]), ("q0", "b", "Z", "q0", [])], ["q0"]),
    ],
    "fst": [
        lambda: _fst([("s", "a", "f", ["x"]), ("f", "b", "s", ["y"])], ["s"], ["f"]),
        lambda: _fst([("s", "a", "s", ["x", "x"]), ("s", "epsilon", "t", []), ("t", "b", "t", [])], ["s"], ["t"]),
        lambda: _fst([("u", "a", "v", []), ("u", "a", "w", ["y"])], ["u"], ["v", "w"]),
    ],
    "ig": [
        lambda: _ig([["push", "S", "A", "f"], ["pop", "f", "A", "B"], ["end", "B", "a"]]),
        lambda: _ig([["dup", "S", "A", "A"], ["pop", "f", "S", "A"], ["pop", "f", "S", "B"], ["push", "A", "S", "f"]]),
        lambda: _ig([["push", "S", "S", "f"], ["pop", "f", "S", "A"], ["end", "A", "a"], ["dup", "S", "A", "A"]]),
    ],
}


# ------------------------------------------------------------------ canonical answers
def canon(v):
    if isinstance(v, (bool, int, str)) or v is None:
        return v if v is not None else "None"
    if isinstance(v, dict):
        return sorted([canon(k), canon(x)] for k, x in v.items())
    if isinstance(v, (set, frozenset)):
        return sorted((canon(x) for x in v), key=lambda x: json.dumps(x, sort_keys=True))
    if isinstance(v, (list, tuple)):
        return [canon(x) for x in v]
    return repr(v)


def words_acc(fn, words=WORDS):
    return [w for w in words if fn(w)]


def snapshot(t, o):
    from . import fa, cfgh, pdah, fsth
    if t in ("enfa", "dfa"):
        return json.dumps(fa.project(o), sort_keys=True)
    if t == "regex":
        return o.get_tree_str()
    if t == "cfg":
        return json.dumps(cfgh.project(o), sort_keys=True)
    if t == "pda":
        return json.dumps(pdah.project(o), sort_keys=True)
    if t == "fst":
        return json.dumps(fsth.project(o), sort_keys=True)
    if t == "ig":
        return json.dumps(sorted(repr(r) for r in o.rules.rules) +
                          sorted(repr(r) for rs in o.rules.consumption_rules.values() for r in rs))
    raise KeyError(t)


def fingerprint(t, o):
    """Language-level fingerprint of a conversion result (names of generated states / variables may differ)."""
    if t in ("enfa", "dfa"):
        return words_acc(o.accepts)
    if t == "regex":
        return words_acc(o.accepts)
    if t == "cfg":
        return words_acc(o.contains)
    if t == "pda":
        return [len(o.states), o.get_number_transitions(), len(o.final_states)]
    if t == "fst":
        res = []
        for w in WORDS2:
            r = guard.take(lambda: o.translate(w), 50, timeout=0.5)
            res.append(sorted(canon(x) for x in r[1]) if r[0] in ("ok", "timeout") else ["exc"])
        return res
    if t == "ig":
        return bool(o.is_empty())
    raise KeyError(t)


# ------------------------------------------------------------------ operations
def scribble(v, depth=0):
    """Write into every mutable container of a returned plain data structure (to_dict): what a query hands out must not
    be the object's own state, so the frame condition on the receiver must survive this."""
    if depth > 4:
        return
    if isinstance(v, dict):
        for x in list(v.values()):
            scribble(x, depth + 1)
        if v:
            v.pop(next(iter(v)))
        v["#scribble"] = "#"
    elif isinstance(v, set):
        v.clear()
        v.add("#scribble")
    elif isinstance(v, list):
        for x in v:
            scribble(x, depth + 1)
        v.append("#scribble")


def q_fa(o, op):
    if op == "accepts":
        return words_acc(o.accepts)
    if op == "get_accepted_words":
        return sorted(canon([s.value for s in w]) for w in o.get_accepted_words(3))
    if op == "len":
        return len(o)
    if op == "to_dict":
        raw = o.to_dict()
        res = canon({repr(k): {repr(a): (sorted(repr(x) for x in v) if isinstance(v, (set, list)) else repr(v))
                               for a, v in d.items()} for k, d in raw.items()})
        scribble(raw)
        return res
    return canon(getattr(o, op)())


def q_cfg(o, op):
    if op == "contains":
        return words_acc(o.contains)
    if op == "get_words":
        return sorted(canon([x.value for x in w]) for w in itertools.islice(o.get_words(3), 100))
    if op in ("get_generating_symbols", "get_nullable_symbols", "get_reachable_symbols"):
        return sorted(repr(x) for x in getattr(o, op)())
    if op == "llone_first":
        from pyformlang.cfg.llone_parser import LLOneParser
        return canon({repr(k): sorted(repr(x) for x in v) for k, v in LLOneParser(o).get_first_set().items()})
    if op == "cnf_tree":
        for w in WORDS[1:]:
            if o.contains(w):
                return repr(o.get_cnf_parse_tree(w).get_leftmost_derivation())
        return "none"
    return canon(getattr(o, op)())


NAME_REVEALING = {"to_dict", "to_text", "get_generating_symbols", "get_nullable_symbols", "get_reachable_symbols",
                  "llone_first", "cnf_tree", "str", "get_tree_str", "get_generating_non_terminals",
                  "get_reachable_non_terminals"}


def summarize(v):
    """Name-insensitive summary of an answer (used for objects whose state/variable names are generated)."""
    if isinstance(v, list):
        return ["#", len(v), sorted(json.dumps(summarize(x)) for x in v if isinstance(x, list))]
    if isinstance(v, str):
        return ["#str", v.count("\n")]
    return v


def query(t, o, op, derived=False):
    v = query_raw(t, o, op)
    if derived and op in NAME_REVEALING:
        return summarize(canon(v))
    return v


def query_raw(t, o, op):
    if t in ("enfa", "dfa"):
        return q_fa(o, op)
    if t == "regex":
        if op == "accepts":
            return words_acc(o.accepts)
        if op == "str":
            return str(o)
        return canon(getattr(o, op)())
    if t == "cfg":
        return q_cfg(o, op)
    if t == "pda":
        if op == "to_dict":
            raw = o.to_dict()
            res = sorted(repr(k) + "->" + repr(sorted(repr(x) for x in v)) for k, v in raw.items())
            scribble(raw)
            return res
        return canon(getattr(o, op)())
    if t == "fst":
        if op == "translate":
            return fingerprint("fst", o)
        return canon(getattr(o, op)())
    if t == "ig":
        r = getattr(o, op)()
        return canon(r)
    raise KeyError(t)


def conv1(t, o, op):
    return getattr(o, op)()


def conv2(t, a, op, b):
    if t == "cfg" and op == "substitute":
        from pyformlang.cfg import Terminal
        return a.substitute({Terminal("a"): b})
    return getattr(a, op)(b)


def mutate(t, o, mu, n):
    """Deterministic mutation number n of kind mu on object o; returns a short description."""
    if t in ("enfa", "dfa"):
        states = sorted(o.states, key=lambda s: repr(s.value))
        first = states[0].value if states else "m"
        last = states[-1].value if states else "m"
        if mu == "add_transition":
            args = (first, "b" if n % 2 == 0 else "a", "m%d" % n)
        elif mu == "remove_transition":
            trs = sorted(((p.value, s.value, q.value) for p, s, q in o), key=repr)
            args = trs[n % len(trs)] if trs else (first, "a", last)
        elif mu == "add_final_state":
            args = (first if n % 2 == 0 else "m%d" % n,)
        elif mu == "add_start_state":
            args = (last,)
        else:
            args = (last if n % 2 == 0 else first,)
        r = guard.call(getattr(o, mu), *args)
        return [mu] + [repr(x) for x in args] + [r[0]]
    if t == "pda":
        if mu == "add_transition":
            o.add_transition("q0", "b", "Z", "m%d" % n, ["Z"])
        else:
            o.add_final_state("m%d" % n)
        return [mu, n]
    if t == "fst":
        if mu == "add_transition":
            o.add_transition(sorted(o.states, key=repr)[0] if o.states else "m", "b", "m%d" % n, ["z"])
        else:
            o.add_final_state("m%d" % n)
        return [mu, n]
    raise KeyError(t)


MUTABLE = {"enfa", "dfa", "pda", "fst"}
BUDGET_S = 6.0


# ------------------------------------------------------------------ the replay
class Heap:
    def __init__(self, roots):
        self.obj, self.typ, self.recipe, self.muts = {}, {}, {}, {}
        # unstable: state names generated by a counter that depends on the history (Regex.to_epsilon_nfa continues the
        # regex's counter); diverged: such an object was mutated -- the deterministic choice of the mutated state /
        # transition depends on the names, so the aged and the freshly rebuilt object are no longer comparable
        self.unstable, self.diverged = set(), set()
        for i, (t, idx) in enumerate(roots, start=1):
            self.obj[i] = CATALOG[t][idx % len(CATALOG[t])]()
            self.typ[i] = t
            self.recipe[i] = ("root", t, idx)
            self.muts[i] = []

    def rebuild(self, i, upto=None, memo=None):
        """A freshly built object equal to object i after its first `upto` mutations."""
        memo = {} if memo is None else memo
        upto = len(self.muts[i]) if upto is None else upto
        key = (i, upto)
        if key in memo:
            return memo[key]
        r = self.recipe[i]
        if r[0] == "root":
            o = CATALOG[r[1]][r[2] % len(CATALOG[r[1]])]()
        elif r[0] == "conv1":
            _, op, s, sv = r
            o = conv1(self.typ[s], self.rebuild(s, sv, memo), op)
            if o is memo.get((s, sv)) and (s, sv) in memo:
                pass
        else:
            _, op, a, av, b, bv = r
            o = conv2(self.typ[a], self.rebuild(a, av, memo), op, self.rebuild(b, bv, memo))
        for mu, n in self.muts[i][:upto]:
            mutate(self.typ[i], o, mu, n)
        memo[key] = o
        return o

    def snaps(self):
        out = {}
        for i, o in self.obj.items():
            try:
                out[str(i)] = snapshot(self.typ[i], o)
            except Exception as e:  # pylint: disable=broad-except
                out[str(i)] = "snapshot-error:" + type(e).__name__
        return out


def _guarded(fn):
    r = guard.call(fn, timeout=3.0)
    if r[0] == "ok":
        return r[1], None
    return None, (r[1] if r[0] == "exc" else "Timeout")


def run_history(roots, hist, result_types):
    """roots: [(type, catalog index), (type, catalog index)]; hist: list of dicts from ValueSemantics;
    result_types: id -> type for the objects the history allocates.  Returns the list of events."""
    import time
    h = Heap(roots)
    evs = [{"k": "init", "snaps": h.snaps(), "roots": [list(r) for r in roots]}]
    t0 = time.time()
    for step in hist:
        if time.time() - t0 > BUDGET_S:
            # the whole history has a time budget (objects grow with every conversion); what was replayed is judged
            evs.append({"k": "init", "op": "budget", "snaps": h.snaps(), "inconclusive": "history budget"})
            break
        k, o, op = step["k"], step["o"], step["op"]
        ev = {"k": k, "o": o, "op": op, "kop": op}
        t = h.typ[o]
        operands = [o] + ([step["o2"]] if "o2" in step else [])
        incomparable = any(x in h.diverged for x in operands)
        if k == "query":
            derived = h.recipe[o][0] != "root"
            if derived and op in NAME_REVEALING:
                ev["kop"] = op + "#summary"
            ans, exc = _guarded(lambda: query(t, h.obj[o], op, derived))
            fresh, fexc = _guarded(lambda: query(t, h.rebuild(o), op, derived))
        elif k == "query2":
            b = step["o2"]
            ev["o2"] = b
            ans, exc = _guarded(lambda: bool(h.obj[o].is_equivalent_to(h.obj[b])))

            def fr():
                memo = {}
                return bool(h.rebuild(o, None, memo).is_equivalent_to(h.rebuild(b, None, memo)))
            fresh, fexc = _guarded(fr)
        elif k == "conv1":
            d = step["d"]
            ev["d"] = d
            res, exc = _guarded(lambda: conv1(t, h.obj[o], op))
            rt = result_types[d]
            if exc is not None:
                _, fexc = _guarded(lambda: conv1(t, h.rebuild(o), op))
                ans = fresh = None
            elif rt in MUTABLE and any(res is x for x in h.obj.values()):
                ev["alias"] = [j for j, x in h.obj.items() if res is x]
                ev["snaps"] = h.snaps()
                evs.append(ev)
                break
            elif exc is None:
                h.obj[d], h.typ[d], h.muts[d] = res, rt, []
                h.recipe[d] = ("conv1", op, o, len(h.muts[o]))
                ans, exc = _guarded(lambda: fingerprint(rt, res))
                fresh, fexc = _guarded(lambda: fingerprint(rt, conv1(t, h.rebuild(o), op)))
        elif k == "conv2":
            b, d = step["o2"], step["d"]
            ev["o2"], ev["d"] = b, d
            res, exc = _guarded(lambda: conv2(t, h.obj[o], op, h.obj[b]))
            rt = result_types[d]
            if exc is not None:
                def fr0():
                    memo = {}
                    return conv2(t, h.rebuild(o, None, memo), op, h.rebuild(b, None, memo))
                _, fexc = _guarded(fr0)
                ans = fresh = None
            elif rt in MUTABLE and any(res is x for x in h.obj.values()):
                ev["alias"] = [j for j, x in h.obj.items() if res is x]
                ev["snaps"] = h.snaps()
                evs.append(ev)
                break
            elif exc is None:
                h.obj[d], h.typ[d], h.muts[d] = res, rt, []
                h.recipe[d] = ("conv2", op, o, len(h.muts[o]), b, len(h.muts[b]))
                ans, exc = _guarded(lambda: fingerprint(rt, res))

                def fr2():
                    memo = {}
                    return fingerprint(rt, conv2(t, h.rebuild(o, None, memo), op, h.rebuild(b, None, memo)))
                fresh, fexc = _guarded(fr2)
        else:  # mutate
            n = len(h.muts[o])
            try:
                ev["desc"] = mutate(t, h.obj[o], op, n)
            except Exception as e:  # pylint: disable=broad-except
                # the object no longer supports its own public interface (its state was damaged through an alias):
                # reported as an exception of this step; the history ends here
                ev["desc"] = [op, "failed"]
                ev["exc"] = "aged:%s fresh:None" % type(e).__name__
                ev["snaps"] = h.snaps()
                evs.append(ev)
                break
            h.muts[o].append((op, n))
            ans = fresh = exc = fexc = None
        if k in ("conv1", "conv2") and step["d"] in h.obj:
            d = step["d"]
            if any(x in h.unstable for x in operands) or (t == "regex" and op == "to_epsilon_nfa"):
                h.unstable.add(d)
            if incomparable:
                h.diverged.add(d)
        if k == "mutate" and o in h.unstable:
            h.diverged.add(o)
        if k != "mutate" and incomparable:
            ev["incomparable"] = "operand with history-dependent generated names was mutated"
        elif k != "mutate":
            if "Timeout" in (exc, fexc):
                # a call too slow for the watchdog decides nothing about history effects; the history ends here
                ev["inconclusive"] = "timeout"
                ev["snaps"] = h.snaps()
                evs.append(ev)
                break
            if exc is not None and fexc is not None and exc == fexc:
                # the call fails the same way on fresh objects: not a history effect (owned by another property)
                ev["bothexc"] = exc
                if k in ("conv1", "conv2"):
                    ev["snaps"] = h.snaps()
                    evs.append(ev)
                    break
            elif exc is not None or fexc is not None:
                ev["exc"] = "aged:%s fresh:%s" % (exc, fexc)
                if k in ("conv1", "conv2") and exc is not None:
                    ev["snaps"] = h.snaps()
                    evs.append(ev)
                    break
            else:
                ev["ans"], ev["fresh"] = json.dumps(canon(ans), sort_keys=True), json.dumps(canon(fresh), sort_keys=True)
        ev["snaps"] = h.snaps()
        evs.append(ev)
    return evs
