"""C07 - PythonRegex agrees with Python's re.fullmatch on the documented subset."""
import random

from harness import core, tlaparse

TRACE = "TracePyRegex"
ASSUMPTIONS = [
    "CPython's re module is the authoritative oracle; the TLA+ denotation (PyRegexSem!Den) is the generator and a second oracle, "
    "a disagreement between the two is reported as machinery failure",
    "patterns are rendered by TLC from ASTs of bounded depth; test strings are all strings up to length 3 over {a,b,c,0,-,space,],$,[} (quick: all up to length 2 and every third of length 3)",
]
SIGMA = ["a", "b", "c", "0", "-", " ", "]", "$", "["]
SIGMA0 = "^ab-"


def gen_cfg(depth, sigma=None):
    return ('SPECIFICATION Spec\nCONSTANTS Sigma = {%s}\n L = 3\n Depth = %d\nCHECK_DEADLOCK FALSE\n'
            % (", ".join('"%s"' % c for c in (sigma or SIGMA)), depth))


def bounds(tier):
    return "ASTs of PyRegexGen family depth %d; strings up to length 3 over %s; ill-formed variants by mutation of the rendered text" % (
        2 if tier == "quick" else 3, SIGMA)


def exhaustive(tier):
    return True


def model_runs(tier):
    return []


def hashseeds(tier):
    return (0,)


def mutate_text(p, rnd):
    """Ill-formed / out-of-subset variants: the property says a pattern that Python rejects is rejected."""
    k = rnd.randrange(5)
    if k == 0:
        return "(" + p
    if k == 1:
        return p + ")"
    if k == 2:
        return "*" + p
    if k == 3:
        return p + "[c-a]"
    return p + "{2,1}"


DIRECTED = ["", "()", "(())", "()()", "a()", "()a", "a()b", "(|)", "a||b", "||", "(a|)b", "a(|b)", "()*", "()+", "()?", "(a|())",
            "a{1}", "(){2}", "[a]()", "(()|a)*",
            # redundant groups around alternations, sets and single symbols, two and three levels deep
            "((ab|c))", "a((bc|a))c", "(([ab]c|a))+", "(((a)))", "(([ab]))", "((a|bc))", "(([ab])+)", "(((ab|c)))b", "((a)(b|c))",
            "((ab|c)*)", "(((a|b)c|a))?",
            # a dash as the upper end of a range, followed by more of the set
            "[ ---a]", "[$---b]", "[^ ---a]", "[----a]", "[ ----c]", "[$---]", "[ ---][a-c]"]
# an escaped backslash in front of a letter that would otherwise be a shortcut, and escaped / plain spaces (judged on
# strings over the characters these patterns talk about)
DIRECTED2 = [r"\\d", r"\\s", r"\\w", r"a\\d", r"\\\d", r"\\\\d", r"(\\|a)\w", r"[\\d]", r"[\\]d", r"\ ", r"a\ b", r"a b", r"[ ]a", r"\d\ ",
             r"\\ ", r"(\\d)*", r"\\d+", r"\\?d"]
SIGMA2 = "\\d1 sa"
# the whitespace class against every whitespace character and the letters its escapes are spelled with; braces in sets
DIRECTED3 = [r"\s", r"\s+", r"[\s]", r"[\sx]", r"[^\s]", r"a\sb", r"(\s|v)*", r"[^\sv]", r"\S" if False else r"[ \t]"]
SIGMA3 = " \t\n\r\x0b\x0cvntrf"
DIRECTED4 = [r"[^{}]", r"[^}a]", r"\{[^{}]*\}", r"[{}]", r"[^x-{]", r"[z-~]", r"[^\{]", r"a[{]b", r"[^}]*"]
SIGMA4 = "{}ax|~"
# a caret as a member of a set (literal unless it is the first character), alone, repeated, with ranges and duplicates
DIRECTED5 = [r"[^^]", r"[^a^]", r"[^^a]", r"[a^]", r"[\^a]", r"[^\^]", r"[^a-b^]", r"([^^|]b)*", r"[a^b]", r"[^^^]", r"[ab^^]", r"[^aa]",
             r"[aab]", r"[a-ba]", r"[^a-bb]", r"x[^a-b^]+", r"[^^]*", r"^" if False else r"[\^]", r"[^|^]", r"[|^]"]
SIGMA5 = "^ab|x"


def generate(tier, seed, work, stats):
    rnd = random.Random(seed)
    states = core.tlc_dump("PyRegexGen", gen_cfg(2 if tier == "quick" else 3), work, stats=stats, workers=4,
                           name="PyRegexGen-d%d" % (2 if tier == "quick" else 3))
    cases = []
    for st in sorted(states, key=lambda s: s["pat"]):
        cases.append(dict(pat=st["pat"], den=sorted(st["lang"]), ast=tlaparse.to_json(st["ast"]), family="PyRegexGen"))
    for c in list(cases)[:: 4 if tier == "quick" else 2]:
        cases.append(dict(pat=mutate_text(c["pat"], rnd), den=[], ast=c["ast"], family="mutated"))
    # sets with a caret as a member (family Depth = 0 of the generator), denotation over {^, a, b, -}
    for st in sorted(core.tlc_dump("PyRegexGen", gen_cfg(0, SIGMA0), work, stats=stats, workers=4, name="PyRegexGen-caret"),
                     key=lambda s: s["pat"]):
        cases.append(dict(pat=st["pat"], den=sorted(st["lang"]), ast=tlaparse.to_json(st["ast"]), family="PyRegexGen", sigma=SIGMA0))
    # degenerate patterns of the subset (empty pattern, empty groups and alternatives at every position): CPython decides
    for pat in DIRECTED:
        cases.append(dict(pat=pat, den=[], ast={}, family="directed"))
    for pat in DIRECTED2:
        cases.append(dict(pat=pat, den=[], ast={}, family="directed", sigma=SIGMA2))
    for pat in DIRECTED3:
        cases.append(dict(pat=pat, den=[], ast={}, family="directed", sigma=SIGMA3, maxlen=2))
    for pat in DIRECTED4:
        cases.append(dict(pat=pat, den=[], ast={}, family="directed", sigma=SIGMA4))
    for pat in DIRECTED5:
        cases.append(dict(pat=pat, den=[], ast={}, family="directed", sigma=SIGMA5))
    for c in cases:
        c["tier"] = tier
    return cases


def strings(tier="thorough"):
    import itertools
    out = []
    for n in range(4):
        out.extend("".join(t) for t in itertools.product(SIGMA, repeat=n))
    if tier == "quick":        # all strings up to length 2, every third string of length 3
        out = [s for i, s in enumerate(out) if len(s) < 3 or i % 3 == 0]
    return out


def replay(case):
    import re
    import warnings
    from harness import guard
    from pyformlang.regular_expression import PythonRegex
    pat = case["pat"]
    ev = {"op": "pyregex", "pat": pat, "den": case["den"], "re": [], "acc": [], "family": case["family"]}
    ss = strings(case.get("tier", "thorough"))
    if case.get("sigma"):
        import itertools
        ss = ["".join(t) for n in range(case.get("maxlen", 3) + 1) for t in itertools.product(case["sigma"], repeat=n)]
    if case.get("tier") == "quick":
        # the denotation is compared on the strings that are actually tried (those of the case's own alphabet)
        keep = set(ss)
        ev["den"] = [s for s in case["den"] if s in keep]
    with warnings.catch_warnings():
        warnings.simplefilter("ignore")
        try:
            cre = re.compile(pat)
            ev["re_outcome"] = "ok"
            ev["re"] = [s for s in ss if cre.fullmatch(s) is not None]
        except re.error as e:
            ev["re_outcome"] = "error"
    if case["family"] in ("mutated", "directed") and ev["re_outcome"] == "ok":
        ev["den"] = ev["re"]          # a mutation that Python accepts has no TLA+ denotation: CPython alone decides
    r = guard.call(PythonRegex, pat, timeout=5.0)
    if r[0] != "ok":
        ev["py_outcome"] = r[1] if r[0] == "exc" else "Timeout"
        ev["msg"] = r[2] if r[0] == "exc" else ""
        return [ev]
    ev["py_outcome"] = "ok"
    acc = []
    for s in ss:
        r2 = guard.call(r[1].accepts, list(s), timeout=3.0)
        if r2[0] != "ok":
            ev["py_outcome"] = "accepts:" + (r2[1] if r2[0] == "exc" else "Timeout")
            break
        if r2[1]:
            acc.append(s)
    ev["acc"] = acc
    return [ev]


def _walk(a):
    yield a
    for k in ("x", "l", "r"):
        if isinstance(a, dict) and k in a:
            yield from _walk(a[k])


def features(ev, clause):
    from harness import core as _c
    return {}
