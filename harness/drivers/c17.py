"""C17 - IndexedGrammar.is_empty() is exact and independent of rule order / ordering heuristic."""
import itertools
import random

from harness import core, tlaparse
from harness.drivers import c01

TRACE = "TraceIG"
ASSUMPTIONS = [
    "TLC and its Json module; the grammar is given to the library exactly as generated (rule tuples), nothing is projected back",
    "emptiness oracle: productive-set transformers explored on demand (IGSem), model-checked against the full fixpoint (LazyOK)",
    "intersection oracle: product of the grammar with the determinised automaton, decided by the same fixpoint",
]


def gen_cfg(nts, idx, maxr, inv=True):
    f = lambda s: "{" + ", ".join('"%s"' % x for x in s) + "}"
    return "SPECIFICATION Spec\nCONSTANTS NT = %s\n IDX = %s\n MaxRules = %d\nCHECK_DEADLOCK FALSE\n%s" % (
        f(nts), f(idx), maxr, "INVARIANT LazyOK\n" if inv else "")


def families(tier):
    # (NT, IDX, MaxRules, sample, max permutations)
    if tier == "quick":
        return [(("S", "A", "B"), ("f",), 3, 4, 6), (("S", "A"), ("f", "g"), 4, 6, 8), (("S", "A", "B"), ("f",), 4, 60, 24)]
    return [(("S", "A", "B"), ("f",), 3, 1, 6), (("S", "A"), ("f", "g"), 4, 1, 24), (("S", "A", "B"), ("f",), 4, 8, 24),
            (("S", "A", "B", "C"), ("f",), 4, 40, 24)]


def bounds(tier):
    return "; ".join("NT=%s IDX=%s <=%d rules 1:%d up to %d permutations" % f for f in families(tier)) + \
        "; optim 0..8; remove_useless_rules; intersection with spec-generated automata; random grammars with 5-7 rules"


def exhaustive(tier):
    return all(f[3] == 1 for f in families(tier))


def model_runs(tier):
    from harness import algo
    return algo.marking(tier)


def hashseeds(tier):
    return (0, 1)


def random_grammars(n, seed):
    rnd = random.Random(seed)
    out = []
    NT, IDX = ["S", "A", "B", "C"], ["f", "g"]
    for _ in range(n):
        rules = []
        for _ in range(rnd.randint(4, 7)):
            k = rnd.choice(["end", "dup", "push", "push", "pop", "pop"])
            if k == "end":
                r = ["end", rnd.choice(NT), "a"]
            elif k == "dup":
                r = ["dup", rnd.choice(NT), rnd.choice(NT), rnd.choice(NT)]
            elif k == "push":
                r = ["push", rnd.choice(NT), rnd.choice(NT), rnd.choice(IDX)]
            else:
                r = ["pop", rnd.choice(IDX), rnd.choice(NT), rnd.choice(NT)]
            if r not in rules:
                rules.append(r)
        out.append(rules)
    return out


def productive_grammars(n, seed):
    """Random grammars biased towards non-empty languages that need several passes of the marking loop: a chain of
    rules from S down to an end rule (dup / push / pop steps), plus a few distractors; 4 rules so that all 24
    permutations are tried."""
    rnd = random.Random(seed)
    NT, IDX = ["S", "A", "B", "C"], ["f", "g"]
    out = []
    for _ in range(n):
        order = ["S"] + rnd.sample(["A", "B", "C"], 3)
        rules = [["end", order[3], "a"]]
        depth = 0
        for i in range(2, -1, -1):
            k = rnd.choice(["dup", "dup", "push", "pop"] if depth else ["dup", "dup", "push"])
            lower = order[i + 1:]
            if k == "dup":
                r = ["dup", order[i], rnd.choice(lower), rnd.choice(lower)]
            elif k == "push":
                r = ["push", order[i], order[i + 1], rnd.choice(IDX)]
            else:
                r = ["pop", rnd.choice(IDX), order[i], order[i + 1]]
            if r not in rules:
                rules.append(r)
        if rnd.random() < 0.4:
            extra = rnd.choice([["pop", rnd.choice(IDX), rnd.choice(NT), rnd.choice(NT)],
                                ["push", rnd.choice(NT), rnd.choice(NT), rnd.choice(IDX)]])
            if extra not in rules:
                rules.append(extra)
        rnd.shuffle(rules)
        out.append(rules)
    return out


def big_grammars(n, seed):
    """6-9 rules over six non-terminals: a push under the start symbol, two alternative consumption rules leading to the
    same non-terminal, duplication below; the marking needs several passes and several marked sets per non-terminal."""
    rnd = random.Random(seed)
    NT, IDX = ["S", "A", "B", "C", "D", "E"], ["f", "g"]
    out = []
    for _ in range(n):
        f, g = rnd.choice(IDX), rnd.choice(IDX)
        x, b, c1, c2, d = rnd.sample(NT[1:], 5)
        rules = [["push", "S", x, g], ["pop", g, x, "E" if rnd.random() < 0.5 else d], ["push", x, b, f] if rnd.random() < 0.6 else ["dup", x, b, b],
                 ["dup", b, c1, c2] if rnd.random() < 0.5 else ["dup", b, c1, c1], ["pop", f, c1, d], ["pop", f, c2, d],
                 ["end", d, "a"]]
        if rnd.random() < 0.5:
            rules.append(["dup", rnd.choice(NT), rnd.choice(NT), rnd.choice(NT)])
        if rnd.random() < 0.5:
            rules.append(["end", "E", "a"])
        uniq = []
        for r in rules:
            if r not in uniq:
                uniq.append(r)
        rnd.shuffle(uniq)
        out.append(uniq)
    return out


def generate(tier, seed, work, stats):
    rnd = random.Random(seed)
    cases = []
    for nts, idx, maxr, k, maxperm in families(tier):
        states = core.tlc_dump("IGGen", gen_cfg(nts, idx, maxr), work, stats=stats,
                               name="IGGen-n%d-i%d-r%d" % (len(nts), len(idx), maxr))
        keyed = sorted(sorted(tlaparse.to_json(st["rules"])) for st in states)
        for i, rules in enumerate(keyed):
            if k > 1 and (i + seed) % k:
                continue
            if rules:
                cases.append(dict(kind="ig", rules=rules, nts=list(nts), idx=list(idx), maxperm=maxperm, family="IGGen"))
    for rules in random_grammars(300 if tier == "quick" else 5000, seed + 17):
        cases.append(dict(kind="ig", rules=rules, nts=["S", "A", "B", "C"], idx=["f", "g"], maxperm=6, family="random"))
    for rules in big_grammars(400 if tier == "quick" else 6000, seed + 19):
        cases.append(dict(kind="ig", rules=rules, nts=["S", "A", "B", "C", "D", "E"], idx=["f", "g"], maxperm=10, family="random-big"))
    for rules in productive_grammars(500 if tier == "quick" else 8000, seed + 18):
        cases.append(dict(kind="ig", rules=rules, nts=["S", "A", "B", "C"], idx=["f", "g"], maxperm=24, family="random-productive"))
    # a counter modulo p on the stack: the derivation has to go round a ring of p consumption rules (more sweeps of the
    # marking algorithm than the grammar has other rules)
    for size in ((5, 6) if tier == "quick" else (5, 6, 7, 8)):
        ring = [["pop", "f", "A%d" % i, "A%d" % ((i + 1) % size)] for i in range(size)] + [["pop", "g", "A%d" % (size - 1), "T"]]
        other = [["push", "S", "L", "g"], ["push", "L", "L", "f"], ["dup", "L", "A0", "T"], ["end", "T", "a"]]
        nts = ["S", "L", "T"] + ["A%d" % i for i in range(size)]
        cases.append(dict(kind="ig", rules=other + ring, nts=nts, idx=["f", "g"], maxperm=8, family="directed-ring-counter"))
        cases.append(dict(kind="ig", rules=ring + other, nts=nts, idx=["f", "g"], maxperm=8, family="directed-ring-counter"))
    # twin productions: several left sides push the same index on the same right term, whose marks are composite (a
    # duplication below consumption rules); each twin must receive the marks whichever of them is processed first
    for i1 in ("f", "g"):
        for lefts in (["Z", "S"], ["S", "Z"], ["Z", "Y", "S"], ["S", "Y", "Z"]):
            for drop in (None, 0, 1):
                pops = [["pop", i1, "C", "E"], ["pop", i1, "D", "E"]]
                if drop is not None:
                    pops[drop] = ["pop", "g" if i1 == "f" else "f", pops[drop][2], "E"]     # the grammar becomes empty
                twins = [["push", x, "B", i1] for x in lefts]
                rest = [["dup", "B", "C", "D"]] + pops + [["end", "E", "a"]]
                nts = ["S", "Z", "Y", "B", "C", "D", "E"]
                cases.append(dict(kind="ig", rules=twins + rest, nts=nts, idx=["f", "g"], maxperm=24, family="directed-twin-productions"))
                cases.append(dict(kind="ig", rules=rest + twins, nts=nts, idx=["f", "g"], maxperm=24, family="directed-twin-productions"))
        # the twins sit under a duplication of the start variable
        twins = [["dup", "S", "T", "U"], ["push", "T", "B", i1], ["push", "U", "B", i1]]
        rest = [["dup", "B", "C", "D"], ["pop", i1, "C", "E"], ["pop", i1, "D", "E"], ["end", "E", "a"]]
        nts = ["S", "T", "U", "B", "C", "D", "E"]
        cases.append(dict(kind="ig", rules=twins + rest, nts=nts, idx=["f", "g"], maxperm=24, family="directed-twin-productions"))
        cases.append(dict(kind="ig", rules=rest + twins, nts=nts, idx=["f", "g"], maxperm=24, family="directed-twin-productions"))
    # intersections with automata of the FA generator (terminal "a")
    ops = []
    for kind in ("enfa", "dfa"):
        states = core.tlc_dump("FAGen", c01.gen_cfg(kind, 2, 2, 0, invariants=False, syms=("a",), maxs=1, maxf=2), work, stats=stats,
                               name="FAGen-%s-q2-t2-s1" % kind)
        ops += [dict(fkind=kind, calls=tlaparse.to_json(st["hist"])) for st in states if st["hist"]]
    rnd.shuffle(ops)
    base = [c for c in cases if c["family"] == "IGGen"]
    for i in range(400 if tier == "quick" else 6000):
        c = base[(i * 13) % len(base)]
        cases.append(dict(kind="inter", rules=c["rules"], nts=c["nts"], idx=c["idx"], operand=ops[i % len(ops)], family="inter"))
    # every automaton of the generator against grammars whose language is known to be non-empty (an empty grammar decides
    # nothing about the product construction)
    prod = [c for c in cases if c["family"] == "random-productive" and len(c["rules"]) <= 5]
    if prod:
        for i, o in enumerate(ops):
            for j in range(2 if tier == "quick" else 6):
                c = prod[(i * 5 + j * 37) % len(prod)]
                cases.append(dict(kind="inter", rules=c["rules"], nts=c["nts"], idx=c["idx"], operand=o, family="inter-productive"))
    # intersections with random automata over two letters, the second letter spelled like a non-terminal of the grammar
    igs = [c for c in cases if c["kind"] == "ig" and len(c["rules"]) <= 5]
    rops = [o for o in c01.random_cases(800 if tier == "quick" else 8000, seed + 20, nq=3, nt=4) if o["kind"] != "dfa" or True]
    for i, o in enumerate(rops):
        c = igs[(i * 7) % len(igs)]
        cases.append(dict(kind="inter", rules=c["rules"], nts=c["nts"], idx=c["idx"], operand=dict(fkind=o["kind"], calls=o["calls"]),
                          ypool=("ntlike", "ab")[i % 3 == 0], family="inter-two-letters"))
    # other start variables than the default "S", and a consumption rule listed twice
    extra = []
    for i, c in enumerate(cases):
        if i % 6 == 1:
            extra.append(dict(c, start="X0", family=c["family"] + "-renamed-start"))
        if i % 15 == 4:
            extra.append(dict(c, repeat_pop=True, family=c["family"] + "-repeated-consumption-rule"))
        if i % 7 == 3:
            extra.append(dict(c, idxvals="int", family=c["family"] + "-integer-index-symbols"))
        if c.get("kind") == "inter" and i % 2 == 0:
            extra.append(dict(c, ypool="ntlike", family=c["family"] + "-letters-spelled-like-non-terminals"))
    return cases + extra


IDX_VALUES = {}       # abstract index symbol -> concrete value (set by replay for the case at hand)


def mk_rules(rules):
    from pyformlang.indexed_grammar import EndRule, DuplicationRule, ProductionRule, ConsumptionRule
    out = []
    ix = lambda x: IDX_VALUES.get(x, x)
    rules = [[r[0], r[1], r[2], ix(r[3])] if r[0] == "push" else ([r[0], ix(r[1]), r[2], r[3]] if r[0] == "pop" else r) for r in rules]
    for r in rules:
        if r[0] == "end":
            out.append(EndRule(r[1], r[2]))
        elif r[0] == "dup":
            out.append(DuplicationRule(r[1], r[2], r[3]))
        elif r[0] == "push":
            out.append(ProductionRule(r[1], r[2], r[3]))
        else:
            out.append(ConsumptionRule(r[1], r[2], r[3]))
    return out


def verdict(fn):
    from harness import guard
    r = guard.call(fn, timeout=3.0)
    if r[0] == "ok":
        return "empty" if r[1] else "nonempty"
    return "exc:" + (r[1] if r[0] == "exc" else "Timeout")


def renamed(case):
    """The case with the start variable S renamed (the grammar object is then told its start variable), and / or with a
    consumption rule listed twice."""
    start = case.get("start", "S")
    ren = lambda x: start if x == "S" else x
    rules = []
    for r in case["rules"]:
        if r[0] == "end":
            rules.append([r[0], ren(r[1]), r[2]])
        elif r[0] == "dup":
            rules.append([r[0], ren(r[1]), ren(r[2]), ren(r[3])])
        elif r[0] == "push":
            rules.append([r[0], ren(r[1]), ren(r[2]), r[3]])
        else:
            rules.append([r[0], r[1], ren(r[2]), ren(r[3])])
    if case.get("repeat_pop"):
        pops = [r for r in rules if r[0] == "pop"]
        if pops:
            rules = rules + [list(pops[0])]
    return dict(case, rules=rules, nts=[ren(x) for x in case["nts"]]), start


def replay(case):
    from harness import fa, guard
    import pyformlang.regular_expression      # IndexedGrammar.intersection refers to pyformlang.regular_expression lazily
    from pyformlang.indexed_grammar import Rules, IndexedGrammar as _IG
    case, start = renamed(case)
    IDX_VALUES.clear()
    if case.get("idxvals") == "int":       # index symbols that are not strings (the abstract grammar is the same)
        IDX_VALUES.update({"f": 1, "g": (0, 1), "h": 2})

    def IndexedGrammar(rules):
        return _IG(rules) if start == "S" else _IG(rules, start)
    G = {"start": start, "nts": case["nts"], "idx": case["idx"], "rules": case["rules"]}
    if case["kind"] == "inter":
        ccalls, _ = fa.concrete(case["operand"]["calls"], "int", case.get("ypool", "ab"))
        a, _ = fa.build(case["operand"]["fkind"], ccalls)
        A = fa.project(a)
        # the automaton reads the raw terminal "a": project symbols untagged for the product
        A = dict(A, symbols=["a" if s == "s:a" else s for s in A["symbols"]],
                 delta=[[p, "a" if s == "s:a" else s, q] for p, s, q in A["delta"]])
        r = guard.call(lambda: IndexedGrammar(Rules(mk_rules(case["rules"]))).intersection(a), timeout=5.0)
        ev = {"op": "ig_intersection", "G": G, "A": A}
        if r[0] == "ok":
            v = verdict(r[1].is_empty)
            if v == "exc:Timeout":
                ev["slow"] = True
            elif v.startswith("exc"):
                ev["exc"] = v
            else:
                ev["res"] = v
        else:
            ev["exc"] = r[1] if r[0] == "exc" else "Timeout"
            ev["msg"] = r[2] if r[0] == "exc" else ""
        return [ev]
    n = len(case["rules"])
    perms = list(itertools.permutations(range(n)))
    if len(perms) > case["maxperm"]:
        rnd = random.Random(hash(tuple(map(tuple, case["rules"]))) & 0xffff)
        perms = [perms[0], perms[-1]] + rnd.sample(perms[1:-1], case["maxperm"] - 2)
    verdicts, useless = [], []
    marked = None
    for pi, perm in enumerate(perms):
        rl = [case["rules"][i] for i in perm]
        for optim in range(9):
            random.seed(optim * 1000 + pi)
            def run():
                ig = IndexedGrammar(Rules(mk_rules(rl), optim))
                return ig.is_empty()
            verdicts.append([list(perm), optim, verdict(run)])
        def run2():
            ig = IndexedGrammar(Rules(mk_rules(rl)))
            return ig.remove_useless_rules().is_empty()
        useless.append([list(perm), 7, verdict(run2)])
        if pi == 0:
            try:
                ig = IndexedGrammar(Rules(mk_rules(rl)))
                ig.is_empty()
                marked = [[a, [sorted(s) for s in sets]] for a, sets in sorted(ig.marked.items())]
            except Exception:  # pylint: disable=broad-except
                marked = None
    ev = {"op": "ig_empty", "G": G, "verdicts": verdicts, "useless": useless}
    if marked is not None:
        ev["marked"] = marked
    return [ev]


def features(ev, clause):
    rules = ev["G"]["rules"]
    pops = {}
    for r in rules:
        if r[0] == "pop":
            pops[(r[1], r[2])] = pops.get((r[1], r[2]), 0) + 1
    excs = sorted({v[2] for v in ev.get("verdicts", []) if v[2].startswith("exc")})
    return {"repeated_consumption_left": any(v > 1 for v in pops.values()),
            "has_end_rule": any(r[0] == "end" for r in rules), "exceptions": ",".join(excs)}
