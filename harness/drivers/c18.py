"""C18 - unification is the greatest lower bound; FCFG membership respects unification."""
import random

from harness import core, tlaparse

TRACE = "TraceFCFG"
ASSUMPTIONS = [
    "TLC and its Json module; feature structures projected to (paths, atoms, reentrancy by identity of the dereferenced node)",
    "consistently typed structures of depth <= 2 (atomic features f,g; complex feature h; atoms 1,2; shared leaves)",
    "feature grammars carry one feature n over Dom={sg,pl}: constants, one agreement variable per production, or nothing; "
    "the oracle instantiates every annotation slot over Dom and takes the bounded language of the plain grammar",
]


def fs_cfg(maxops, inv=True):
    return ('SPECIFICATION Spec\nCONSTANTS AF = {"f","g"}\n CF = {"h"}\n Atoms = {"1","2"}\n MaxOps = %d\nVIEW View\n'
            'CHECK_DEADLOCK FALSE\n%s' % (maxops, "INVARIANT LawsOK\n" if inv else ""))


def fcfg_cfg(nv, nt, maxp, maxb, anns=("-", "sg", "pl", "x")):
    v = ", ".join('"%s"' % x for x in ["S", "A", "B"][:nv])
    t = ", ".join('"%s"' % x for x in ["a", "b"][:nt])
    a = ", ".join('"%s"' % x for x in anns)
    return ('SPECIFICATION Spec\nCONSTANTS V = {%s}\n T = {%s}\n Dom = {"sg","pl"}\n MaxProds = %d\n MaxBody = %d\n Anns = {%s}\n'
            'CHECK_DEADLOCK FALSE\n' % (v, t, maxp, maxb, a))


def bounds(tier):
    return ("feature structures: FSGen, <=5 build operations (1586 structures), ordered pairs sampled (%s); "
            "feature grammars: |V|<=2 |T|<=1|2 <=2|3 productions bodies<=2 with annotations {-,sg,pl,x} (sampled) and the "
            "feature-free family; words up to length 3" % ("8k" if tier == "quick" else "150k"))


def exhaustive(tier):
    return False


def model_runs(tier):
    from harness import algo
    return algo.earley(tier)


def hashseeds(tier):
    return (0, 1)


def generate(tier, seed, work, stats):
    rnd = random.Random(seed)
    cases = []
    states = core.tlc_dump("FSGen", fs_cfg(5), work, stats=stats, name="FSGen-5")
    hists = sorted(tlaparse.to_json(st["hist"]) for st in states)
    specs = {}
    for st in states:
        specs[tlaparse.json_key(tlaparse.to_json(st["hist"]))] = None
    n = len(hists)
    npairs = 8000 if tier == "quick" else 150000
    for i in range(npairs):
        a = hists[(i * 7919 + seed) % n]
        b = hists[(i * 104729 + 13 * seed + i // n) % n]
        cases.append(dict(kind="unify", ha=a, hb=b, family="FSGen-pairs"))
    for h in hists[:: 4 if tier == "quick" else 1]:
        cases.append(dict(kind="unify", ha=h, hb=h, family="FSGen-self"))
    # directed pairs in which an inner node of the receiver gets forwarded by the unification (nested values meeting a
    # sharing of the other side, shared variables receiving a nested value, chains of unspecified values)
    F = lambda *ops: [list(o) for o in ops]
    dire = [
        (F(("node", ["F"]), ("leaf", ["F", "NUM"], "sg"), ("node", ["G"]), ("leaf", ["G", "PER"], "3")),
         F(("leaf", ["F"], "none"), ("share", ["G"], ["F"]))),
        (F(("leaf", ["SUBJ"], "none"), ("share", ["OBJ"], ["SUBJ"])),
         F(("node", ["SUBJ"]), ("leaf", ["SUBJ", "NUM"], "sg"))),
        (F(("leaf", ["A"], "none"), ("share", ["B"], ["A"]), ("node", ["C"]), ("leaf", ["C", "N"], "pl")),
         F(("leaf", ["A"], "none"), ("share", ["C"], ["A"]))),
        (F(("node", ["H"]), ("node", ["H", "AGR"]), ("leaf", ["H", "AGR", "N"], "sg"), ("leaf", ["K"], "none")),
         F(("leaf", ["K"], "none"), ("share", ["H"], ["K"]))),
    ]
    for a, b in dire:
        cases.append(dict(kind="unify", ha=a, hb=b, family="directed-forwarded-inner-nodes"))
        cases.append(dict(kind="unify", ha=b, hb=a, family="directed-forwarded-inner-nodes"))
    # feature grammars
    fams = [(2, 1, 2, 2, 8), (2, 2, 2, 1, 4)] if tier == "quick" else [(2, 1, 2, 2, 1), (2, 2, 2, 1, 1), (2, 1, 3, 2, 200)]
    for nv, nt, maxp, maxb, k in fams:
        # large families are sampled by the hash of the state text before they are parsed (memory)
        states = core.tlc_dump("FCFGGen", fcfg_cfg(nv, nt, maxp, maxb), work, stats=stats,
                               name="FCFGGen-v%d-t%d-p%d-b%d" % (nv, nt, maxp, maxb), keep=(k, seed) if k >= 8 else None)
        keyed = sorted(sorted(tlaparse.to_json(st["prods"])) for st in states)
        del states
        if k >= 8:
            k = 1
        for i, prods in enumerate(keyed):
            if prods and (k <= 1 or (i + seed) % k == 0):
                cases.append(dict(kind="fcfg", prods=prods, family="FCFGGen"))
    # feature-free family (must agree with CFG.contains)
    ffams = [(2, 2, 3, 2, 12)] if tier == "quick" else [(2, 2, 3, 2, 1), (3, 1, 3, 2, 4)]
    for nv, nt, maxp, maxb, k in ffams:
        states = core.tlc_dump("FCFGGen", fcfg_cfg(nv, nt, maxp, maxb, anns=("-",)), work, stats=stats,
                               name="FCFGGen-free-v%d-t%d-p%d-b%d" % (nv, nt, maxp, maxb))
        keyed = sorted(sorted(tlaparse.to_json(st["prods"])) for st in states)
        for i, prods in enumerate(keyed):
            if prods and (k <= 1 or (i + seed) % k == 0):
                cases.append(dict(kind="fcfg", prods=prods, family="FCFGGen-free", free=True))
    from harness.drivers import c08
    for prods in c08.random_grammars(1200 if tier == "quick" else 15000, seed + 21, maxp=5, maxb=3):
        prods = [p for p in prods if all(x in ("S", "A", "B", "a", "b") for x in [p[0]] + p[1])]
        if prods and prods[0][0] == "S":
            cases.append(dict(kind="fcfg", prods=[[h, "-", b, ["-"] * len(b)] for h, b in prods], family="random-free", free=True))
    directed = [[["S", ["X", "X", "b"]], ["X", ["Y", "Y"]], ["Y", []]], [["S", ["A", "B"]], ["A", ["B", "B"]], ["B", []], ["B", ["b"]]],
                [["S", ["A", "S", "A"]], ["S", ["b"]], ["A", ["B"]], ["B", ["A"]], ["B", []]]]
    for prods in directed:
        cases.append(dict(kind="fcfg", prods=[[h, "-", b, ["-"] * len(b)] for h, b in prods], family="directed-free", free=True))
    # ambiguity between a reading that lacks the feature and one that fixes it (the same dotted rule over the same span
    # with two feature structures): every assignment of the five variable names to the roles, so that every order of
    # exploration of the two readings occurs
    import itertools
    roles = ("D", "N", "G", "P")
    tmpl = [["S", "-", ["D", "N"], ["x", "x"]], ["D", "-", ["G"], ["-"]], ["D", "x", ["P"], ["x"]], ["G", "-", ["a"], ["-"]],
            ["P", "sg", ["a"], ["-"]], ["N", "sg", ["b"], ["-"]], ["N", "pl", ["a"], ["-"]]]
    for perm in itertools.permutations(("A", "B", "X", "Y")):
        m = dict(zip(roles, perm))
        for nested in (False, True):
            cases.append(dict(kind="fcfg", family="directed-ambiguous-readings", nested=nested,
                              prods=[[m.get(h, h), ha, [m.get(x, x) for x in b], list(ba)] for h, ha, b, ba in tmpl]))
    # random annotated grammars beyond the exhaustive bound
    rnd = random.Random(seed + 22)
    for prods in c08.random_grammars(600 if tier == "quick" else 8000, seed + 23, maxp=6, maxb=2):
        prods = [p for p in prods if all(x in ("S", "A", "B", "a", "b") for x in [p[0]] + p[1])]
        if prods and prods[0][0] == "S":
            cases.append(dict(kind="fcfg", family="random-annotated", nested=bool(rnd.random() < 0.5),
                              prods=[[h, rnd.choice(["-", "-", "sg", "pl", "x"]), b,
                                      [rnd.choice(["-", "x", "x", "sg", "pl"]) if y[0].isupper() else "-" for y in b]] for h, b in prods]))
    # the same grammars read from their text form (one production per line / alternatives merged with "|"), grammars in
    # which one head and body occurs with different features (lexical ambiguity), and the variable name the parser
    # uses for its own start item
    extra = []
    k = 0
    for c in cases:
        if c.get("kind") != "fcfg" or c.get("nested"):
            continue
        k += 1
        if k % 5 == 0 and all(h[0].isupper() for h, _, _, _ in c["prods"]):
            extra.append(dict(c, builder=("text", "text-alt")[k // 5 % 2], family=c["family"] + "+from_text"))
        if k % 7 == 0:
            lex = [p for p in c["prods"] if p[2] and all(not x[0].isupper() for x in p[2])]
            if lex:
                h, ha, body, banns = lex[0]
                twin = [h, "pl" if ha != "pl" else "sg", body, banns]
                if twin not in c["prods"]:
                    extra.append(dict(c, prods=c["prods"] + [twin], free=False, family=c["family"] + "+same-body-other-feature",
                                      builder=("ctor", "text")[k // 7 % 2]))
        if k % 9 == 0:
            ren = lambda x: "Gamma" if x == "A" else x
            extra.append(dict(c, prods=[[ren(h), ha, [ren(x) for x in b], ba] for h, ha, b, ba in c["prods"]], gamma=True,
                              family=c["family"] + "+variable-named-Gamma"))
    # two features and two agreement variables: ambiguous readings that differ only in which features share a value
    N = ("-", "-")
    tmpl2 = [["S", N, ["A", "B"], [("x", "y"), ("x", "y")]], ["A", ("x", "x"), ["X"], [N]], ["A", ("x", "y"), ["Y"], [N]],
             ["X", N, ["a"], ["-"]], ["Y", N, ["a"], ["-"]], ["B", ("p", "q"), ["b"], ["-"]], ["B", ("p", "p"), ["a"], ["-"]]]
    for perm in itertools.permutations(("A", "B", "X", "Y")):
        m = dict(zip(("A", "B", "X", "Y"), perm))
        extra.append(dict(kind="fcfg", two=True, family="directed-two-features",
                          prods=[[m.get(h, h), list(ha), [m.get(x, x) for x in b], [list(a) if not isinstance(a, str) else ["-", "-"] for a in ba]]
                                 for h, ha, b, ba in tmpl2]))
    # two productions with the same head, body and constants that differ only in which positions share a variable
    lex = [[v, [c, "-"], [t], ["-", "-"]] for v in ("A", "B", "X") for c, t in (("p", "a"), ("q", "b"))]
    for pat1, pat2 in ((("x", "x", "y"), ("x", "y", "x")), (("x", "y", "y"), ("x", "x", "y")), (("x", "y", "x"), ("y", "x", "x"))):
        twins = [["S", N, ["A", "B", "X"], [[a, "-"] for a in pat]] for pat in (pat1, pat2)]
        for order in (0, 1):
            extra.append(dict(kind="fcfg", two=True, family="directed-sharing-twins",
                              prods=[[h, list(ha), b, [list(a) for a in ba]] for h, ha, b, ba in (twins[::-1] if order else twins) + lex]))
    vals = ["-", "-", "p", "q", "x", "x", "y"]
    for prods in c08.random_grammars(500 if tier == "quick" else 6000, seed + 24, maxp=6, maxb=2):
        prods = [p for p in prods if all(x in ("S", "A", "B", "a", "b") for x in [p[0]] + p[1])]
        if prods and prods[0][0] == "S":
            extra.append(dict(kind="fcfg", two=True, family="random-two-features",
                              prods=[[h, [rnd.choice(vals), rnd.choice(vals)], b,
                                      [[rnd.choice(vals), rnd.choice(vals)] if y[0].isupper() else ["-", "-"] for y in b]] for h, b in prods]))
    return cases + extra


# ---------------------------------------------------------------- feature structures
def build_fs(hist):
    """Execute the generator history with add_content; returns the root FeatureStructure."""
    from pyformlang.fcfg import FeatureStructure
    root = FeatureStructure()
    nodes = {(): root}
    for op in hist:
        if op[0] == "node":
            p = tuple(op[1])
            n = FeatureStructure()
            nodes[p[:-1]].add_content(p[-1], n)
            nodes[p] = n
        elif op[0] == "leaf":
            p = tuple(op[1])
            n = FeatureStructure(None if op[2] == "none" else op[2])
            nodes[p[:-1]].add_content(p[-1], n)
            nodes[p] = n
        else:
            p, q = tuple(op[1]), tuple(op[2])
            nodes[p[:-1]].add_content(p[-1], nodes[q])
            nodes[p] = nodes[q]
    return root


def fs_text(hist):
    """The structure of a generator history in the text syntax of FeatureStructure.from_text: a shared node gets a tag
    "(n)"; its value is written at its first occurrence (in the order of the text), the other occurrences carry the tag only."""
    children, value, group = {(): []}, {}, {}
    for op in hist:
        p = tuple(op[1])
        children.setdefault(p[:-1], []).append(p[-1])
        children.setdefault(p, [])
        if op[0] == "leaf" and op[2] != "none":
            value[p] = op[2]
        if op[0] == "share":
            q = tuple(op[2])
            g = group.setdefault(q, [q])
            g.append(p)
            group[p] = g
    tags, seen, seen_vars = {}, set(), []

    def render(path):
        parts = []
        for f in children[path]:
            p = path + (f,)
            txt = f
            g = group.get(p)
            body = ""
            first = True
            if g is not None:
                key = id(g)
                if key not in tags:
                    tags[key] = str(len(tags) + 1)
                first = key not in seen
                seen.add(key)
                body = "(" + tags[key] + ")"
            if first:
                src = p if g is None else g[0]
                if children.get(src):
                    body += "[" + render(src) + "]"
                else:
                    vals = [value[x] for x in (g or [p]) if x in value]
                    if vals:
                        body += vals[0]
                    elif g is None:
                        # an unspecified value is written as a variable of its own
                        body += "?v%d" % len(seen_vars)
                        seen_vars.append(p)
            parts.append(txt + "=" + body)
        return ", ".join(parts)
    return render(())


def spec_fs(hist):
    paths, atoms, same = [[]], [], []
    val = {}
    for op in hist:
        paths.append(list(op[1]))
        if op[0] == "leaf" and op[2] != "none":
            atoms.append([list(op[1]), op[2]])
        if op[0] == "share":
            same.append([list(op[1]), list(op[2])])
            for a in list(atoms):
                if a[0] == list(op[2]):
                    atoms.append([list(op[1]), a[1]])
    return {"paths": paths, "atoms": atoms, "same": same}


def project_fs(root):
    """paths / atoms / reentrancy (identity of the dereferenced node), by traversal of the public attributes."""
    paths, atoms, ident = [], [], {}

    def walk(node, path, depth):
        d = node.get_dereferenced()
        paths.append(list(path))
        ident.setdefault(id(d), []).append(list(path))
        if d.value is not None:
            atoms.append([list(path), str(d.value)])
        if depth > 6:
            raise RecursionError("feature structure too deep / cyclic")
        for feat, sub in d.content.items():
            walk(sub, path + [feat], depth + 1)
    walk(root, [], 0)
    same = []
    for group in ident.values():
        for p in group:
            for q in group:
                same.append([p, q])
    return {"paths": sorted(paths), "atoms": sorted(atoms), "same": sorted(same)}


def accessor_mismatches(root):
    """Every path of the structure read through get_feature_by_path: it must exist and lead to the node (value) the
    traversal of content / get_dereferenced() finds there."""
    bad = []

    def walk(node, path, depth):
        d = node.get_dereferenced()
        if path:
            try:
                got = root.get_feature_by_path(list(path)).get_dereferenced()
                if got is not d or got.value != d.value:
                    bad.append(list(path))
            except Exception as e:  # pylint: disable=broad-except
                bad.append(list(path) + ["!" + type(e).__name__])
        if depth > 6:
            return
        for feat, sub in d.content.items():
            walk(sub, path + [feat], depth + 1)
    walk(root, [], 0)
    return bad


def do_unify(x, y):
    from harness import guard
    r = guard.call(x.unify, y)
    if r[0] == "ok":
        try:
            pr = project_fs(x)
            bad = accessor_mismatches(x)
            if bad:
                pr = dict(pr, accbad=bad[:5])
            return "ok", pr
        except RecursionError:
            return "cyclic", None
    return (r[1] if r[0] == "exc" else "Timeout"), None


# ---------------------------------------------------------------- feature grammars
def fcfg_text(prods, alternatives):
    """The grammar in the text syntax of FCFG.from_text (feature N; "x" is the variable ?x); alternatives=True merges the
    productions of one annotated head into `head -> body1 | body2`."""
    def sym(x, a):
        if not x[0].isupper():
            return x
        return x if a == "-" else (x + "[N=?x]" if a == "x" else x + "[N=%s]" % a)
    lines, order = {}, []
    for h, ha, body, banns in prods:
        b = " ".join(sym(x, a) for x, a in zip(body, banns)) or "$"
        key = (h, ha) if alternatives else len(order)
        if key not in lines:
            lines[key] = [sym(h, ha), []]
            order.append(key)
        lines[key][1].append(b)
    return "\n".join("%s -> %s" % (lines[k][0], " | ".join(lines[k][1])) for k in order)


def build_fcfg2(prods):
    """Two features n, m; an annotation is a pair of "-" | constant | "x" | "y" (x, y: variables shared in the production)."""
    from pyformlang.cfg import Variable, Terminal
    from pyformlang.fcfg import FCFG, FeatureProduction, FeatureStructure
    plist = []
    for h, ha, body, banns in prods:
        shared = {"x": FeatureStructure(), "y": FeatureStructure()}

        def ann(a):
            fs = FeatureStructure()
            for name, v in zip(("n", "m"), a):
                if v in shared:
                    fs.add_content(name, shared[v])
                elif v != "-":
                    fs.add_content(name, FeatureStructure(v))
            return fs
        b = [Variable(x) if x[0].isupper() else Terminal(x) for x in body]
        plist.append(FeatureProduction(Variable(h), b, ann(ha), [ann(a) for a in banns]))
    return FCFG(start_symbol=Variable("S"), productions=set(plist))


def build_fcfg(prods, nested=False, builder="ctor"):
    if builder != "ctor":
        from pyformlang.fcfg import FCFG
        return FCFG.from_text(fcfg_text(prods, builder == "text-alt"))
    return _build_fcfg(prods, nested)


def _build_fcfg(prods, nested=False):
    """nested=True writes the value v of feature n as the structure [m = v] (as in AGREEMENT=[NUMBER=sg]): the same
    abstract grammar, another shape of feature structure."""
    from pyformlang.cfg import Variable, Terminal
    from pyformlang.fcfg import FCFG, FeatureProduction, FeatureStructure
    plist = []
    for h, ha, body, banns in prods:
        shared = FeatureStructure()

        def ann(a):
            fs = FeatureStructure()
            if a == "x":
                fs.add_content("n", shared)
            elif a != "-" and nested:
                inner = FeatureStructure()
                inner.add_content("m", FeatureStructure(a))
                fs.add_content("n", inner)
            elif a != "-":
                fs.add_content("n", FeatureStructure(a))
            return fs
        b = [Variable(x) if x[0].isupper() else Terminal(x) for x in body]
        plist.append(FeatureProduction(Variable(h), b, ann(ha), [ann(a) for a in banns]))
    return FCFG(start_symbol=Variable("S"), productions=set(plist))


def replay(case):
    import itertools
    from harness import guard
    if case["kind"] == "unify":
        a, b = build_fs(case["ha"]), build_fs(case["hb"])
        F, G = project_fs(a), project_fs(b)
        evs = [{"op": "fs_build", "F": F, "spec": spec_fs(case["ha"])}]
        if case["ha"]:
            from pyformlang.fcfg import FeatureStructure
            txt = fs_text(case["ha"])
            r = guard.call(FeatureStructure.from_text, txt, timeout=3.0)
            ev = {"op": "fs_from_text", "text": txt, "spec": spec_fs(case["ha"])}
            if r[0] == "ok":
                ev["F"] = project_fs(r[1])
            else:
                ev["exc"] = r[1] if r[0] == "exc" else "Timeout"
            evs.append(ev)
        res, R = do_unify(a, b)
        a2, b2 = build_fs(case["ha"]), build_fs(case["hb"])
        res2, R2 = do_unify(b2, a2)
        ev = {"op": "unify", "F": F, "G": G, "res": res, "res2": res2}
        if R is not None:
            ev["R"] = R
        if R2 is not None:
            ev["R2"] = R2
        evs.append(ev)
        return evs
    prods = case["prods"]
    if case.get("two"):
        words = [w for n in range(4) for w in itertools.product(["a", "b"], repeat=n)]
        ev = {"op": "fcfg_contains2", "prods": prods, "vars": ["S", "A", "B", "X", "Y"], "terms": ["a", "b"], "start": "S",
              "dom": ["p", "q"], "L": 3, "words": [list(w) for w in words], "acc": []}
        for w in words:
            r = guard.call(build_fcfg2(prods).contains, list(w), timeout=3.0)
            if r[0] != "ok":
                ev["exc"] = (r[1] if r[0] == "exc" else "Timeout") + " on " + "".join(w)
                break
            if r[1]:
                ev["acc"].append(list(w))
        return [ev]
    words = []
    for n in range(4):
        words.extend(itertools.product(["a", "b"], repeat=n))
    # input tokens spelled like the variables of the grammar are ordinary (unknown) tokens
    words += [("A",), ("S",), ("a", "A"), ("A", "b"), ("B", "a"), ("a", "B", "b")]
    ev = {"op": "fcfg_contains", "prods": prods, "vars": ["S", "A", "B", "X", "Y", "Gamma"], "terms": ["a", "b"], "start": "S",
          "dom": ["sg", "pl"], "L": 3, "words": [list(w) for w in words], "acc": [], "free": bool(case.get("free"))}
    acc = []
    for w in words:
        fg = build_fcfg(prods, nested=bool(case.get("nested")), builder=case.get("builder", "ctor"))
        r = guard.call(fg.contains, list(w), timeout=3.0)
        if r[0] != "ok":
            ev["exc"] = (r[1] if r[0] == "exc" else "Timeout") + " on " + "".join(w)
            ev["msg"] = r[2] if r[0] == "exc" else ""
            break
        if r[1]:
            acc.append(list(w))
    ev["acc"] = acc
    if case.get("free") and "exc" not in ev:
        from pyformlang.cfg import CFG, Production, Variable, Terminal
        g = CFG(start_symbol=Variable("S"), productions={
            Production(Variable(h), [Variable(x) if x[0].isupper() else Terminal(x) for x in body]) for h, _, body, _ in prods})
        ev["cfgacc"] = [list(w) for w in words if g.contains(list(w))]
    return [ev]


def features(ev, clause):
    f = {}
    if ev["op"] == "fcfg_contains":
        f["has_eps_prod"] = any(not p[2] for p in ev["prods"])
        f["free"] = ev.get("free", False)
        f["exc"] = ev.get("exc", "").split(" ")[0]
    return f
