"""C16 - FST.translate is the transduction relation; union / concatenate / kleene_star compose relations;
FiniteAutomaton.to_fst() is the identity restricted to the automaton's language."""
import random

from harness import core, tlaparse
from harness.drivers import c01

TRACE = "TraceFST"
ASSUMPTIONS = [
    "TLC and its Json module; harness/fsth.py projection (states, start_states, final_states, transitions)",
    "domain: transducers whose epsilon-input cycles write nothing (enforced by the generator, re-decided by TLC); "
    "kleene_star only for relations without (empty input, non-empty output) pairs",
    "translate is consumed under a step budget (300 outputs) and a 1.5 s alarm",
]


def gen_cfg(nq, sym, out, maxout, maxt, maxs, maxf, inv=True):
    f = lambda s: "{" + ", ".join('"%s"' % x for x in s) + "}"
    return ("SPECIFICATION Spec\nCONSTANTS NQ = %d\n Sym = %s\n Out = %s\n MaxOut = %d\n MaxT = %d\n MaxS = %d\n MaxF = %d\n"
            "VIEW View\nCHECK_DEADLOCK FALSE\n%s" % (nq, f(sym), f(out), maxout, maxt, maxs, maxf, "INVARIANT AlgOK\n" if inv else ""))


def families(tier):
    # (NQ, Sym, Out, MaxOut, MaxT, MaxS, MaxF, sample)
    if tier == "quick":
        return [(2, ("a",), ("x", "y"), 2, 2, 2, 2, 6), (2, ("a", "b"), ("x",), 1, 3, 1, 1, 24), (3, ("a",), ("x",), 1, 3, 1, 1, 24)]
    return [(2, ("a",), ("x", "y"), 2, 2, 2, 2, 1), (2, ("a", "b"), ("x",), 1, 3, 2, 2, 4), (3, ("a",), ("x",), 1, 3, 1, 1, 1),
            (2, ("a", "b"), ("x", "y"), 2, 3, 1, 1, 32)]


L = lambda tier: 3


def bounds(tier):
    return "; ".join("|Q|<=%d Sigma=%s Out=%s |out|<=%d <=%d transitions starts<=%d finals<=%d 1:%d" % f for f in families(tier)) + \
        "; input words up to length 3 over {a,b}; pairs (rotating partner, same object, shared state names); automata of FAGen for to_fst"


def exhaustive(tier):
    return all(f[-1] == 1 for f in families(tier))


def model_runs(tier):
    return []


def hashseeds(tier):
    return (0, 1)


def sample(states, k, seed):
    if k <= 1:
        return states
    keyed = sorted(states, key=lambda st: tlaparse.to_tla(st["fst"]))
    return [st for i, st in enumerate(keyed) if (i + seed) % k == 0]


def generate(tier, seed, work, stats):
    singles = []
    for nq, sym, out, maxout, maxt, maxs, maxf, k in families(tier):
        states = core.tlc_dump("FSTGen", gen_cfg(nq, sym, out, maxout, maxt, maxs, maxf), work, stats=stats,
                               name="FSTGen-q%d-s%d-o%d-t%d" % (nq, len(sym), len(out), maxt))
        for st in sample(states, k, seed):
            h = tlaparse.to_json(st["hist"])
            if h:
                singles.append(h)
    cases = []
    n = len(singles)
    pools = ["q", "q", "digits", "int"]
    for i, h in enumerate(singles):
        j = (i * 31 + 7 + seed) % n
        cases.append(dict(kind="fst", hist=h, hist2=singles[j], spool=pools[i % 4], spool2=pools[(i // 4) % 4] if i % 3 else pools[i % 4],
                          same=(i % 5 == 0), L=3, family="FSTGen"))
        if i % 6 == 1:      # output symbols handed over as a tuple / as a one-shot iterator
            cases.append(dict(cases[-1], outs="tuple", family="FSTGen-tuple-outputs"))
        if i % 6 == 4:
            cases.append(dict(cases[-1], outs="iter", family="FSTGen-iterator-outputs"))
        if i % 5 == 2 and len(h) >= 3:
            cases.append(dict(cases[-1], staged=True, family="FSTGen-queried-while-built"))
    # to_fst on automata of the FA generator
    for kind in ("enfa", "dfa"):
        states = core.tlc_dump("FAGen", c01.gen_cfg(kind, 2, 3, 0, invariants=False, maxs=2, maxf=2), work, stats=stats,
                               name="FAGen-%s-q2-t3" % kind)
        for st in c01.sample(states, 4 if tier == "quick" else 1, seed):
            calls = tlaparse.to_json(st["hist"])
            if calls:
                cases.append(dict(kind="fa", fkind=kind, calls=calls, L=3, family="FAGen"))
    # P3: the calls the repository's own tests make, re-judged by the trace specification
    cases += core.record_tests(["/repo/pyformlang"], work, {"translate"}, stats)
    return cases


def replay(case):
    from harness import fsth, fa, guard
    words = fsth.words_upto(["a", "b"], case["L"])
    tw = [[fa.tag(x) for x in w] for w in words]
    evs = []
    if case["kind"] == "fa":
        ccalls, _ = fa.concrete(case["calls"], "int", "ab")
        a, _ = fa.build(case["fkind"], ccalls)
        A = fa.project(a)
        r = guard.call(a.to_fst)
        ev = {"op": "to_fst", "A": A, "words": tw}
        if r[0] == "ok":
            ev["R"] = fsth.project(r[1])
        else:
            ev["exc"] = r[1] if r[0] == "exc" else "Timeout"
        return [ev]
    outs_type = {"tuple": tuple, "iter": iter}.get(case.get("outs"), list)
    if case.get("staged"):
        # the transducer is queried while it is being built: first without its last two calls, then completed
        calls = [c for c in case["hist"] if c[0] != "add_transition"] + [c for c in case["hist"] if c[0] == "add_transition"]
        cut = max(1, len(calls) - 2)          # start and final states first; the last two transitions come after a query
        t, _ = fsth.build(calls[:cut], case["spool"], outs=outs_type)
        fsth.translate_all(t, words)
        _, spec = fsth.build(case["hist"], case["spool"])
        sm = fsth.STATE_POOLS[case["spool"]]
        for c in calls[cut:]:
            if c[0] == "add_transition":
                t.add_transition(sm[c[1]], "epsilon" if c[2] == "eps" else c[2], sm[c[3]], outs_type(c[4]))
            elif c[0] == "add_start_state":
                t.add_start_state(sm[c[1]])
            else:
                t.add_final_state(sm[c[1]])
    else:
        t, spec = fsth.build(case["hist"], case["spool"], outs=outs_type)
    T = fsth.project(t)
    evs.append({"op": "build", "T": T, "spec": spec})
    outs, status = fsth.translate_all(t, words)
    evs.append({"op": "translate", "T": T, "words": tw, "outs": outs, "status": status})
    if case["same"]:
        t2, T2 = t, T
    else:
        t2, _ = fsth.build(case["hist2"], case["spool2"])
        T2 = fsth.project(t2)
    for op, fn in (("union", lambda: t.union(t2)), ("or", lambda: t | t2), ("concatenate", lambda: t.concatenate(t2)),
                   ("add", lambda: t + t2), ("kleene_star", lambda: t.kleene_star())):
        r = guard.call(fn, timeout=3.0)
        ev = {"op": op, "T": T, "words": tw, "outs": [], "status": []}
        if op != "kleene_star":
            ev["T2"] = T2
            ev["same"] = case["same"]
        if r[0] == "ok":
            ev["R"] = fsth.project(r[1])
            ev["outs"], ev["status"] = fsth.translate_all(r[1], words, timeout=0.5)
        else:
            ev["exc"] = r[1] if r[0] == "exc" else "Timeout"
            ev["msg"] = r[2] if r[0] == "exc" else ""
        evs.append(ev)
    if fsth.project(t) != T or fsth.project(t2) != T2:
        evs.append({"op": "build", "T": fsth.project(t), "spec": spec, "after": True})
    return evs


def features(ev, clause):
    f = {}
    if "T" in ev:
        states = ev["T"]["states"] + (ev.get("T2", {}).get("states", []))
        f["string_states"] = all(s.startswith("s:") for s in states)
        f["shared_state_names"] = bool(set(ev["T"]["states"]) & set(ev.get("T2", {}).get("states", [])))
    return f
