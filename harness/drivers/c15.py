"""C15 - every parse tree / derivation handed out is a real derivation of the given word
(get_cnf_parse_tree, LLOneParser.get_llone_parse_tree, RecursiveDecentParser.get_parse_tree, FCFG.get_parse_tree)."""
from harness import core, tlaparse
from harness.drivers import c08, c14

TRACE = "TraceParse"
ASSUMPTIONS = c08.ASSUMPTIONS + [
    "recursive descent is called only where it terminates (no epsilon production, no unit cycle, no left/right recursion "
    "for leftmost/rightmost mode): the harness pre-filters, TLC re-decides the domain (UNSPEC outside)",
    "FCFG trees: feature-free FCFGs built from the same productions (feature grammars belong to C18)",
]


def families(tier):
    if tier == "quick":
        return [(2, 2, 3, 2, 3), (3, 1, 3, 2, 8), (2, 1, 2, 3, 2)]
    return [(2, 2, 3, 2, 1), (3, 1, 3, 2, 2), (2, 2, 2, 3, 1), (3, 2, 3, 2, 16)]


L = lambda tier: 4
bounds = lambda tier: "; ".join("|V|<=%d |T|<=%d <=%d productions bodies<=%d sampled 1:%d" % f for f in families(tier)) + \
    "; members and non-members up to length 4; four parsers; leftmost and rightmost derivations of every returned tree"


def exhaustive(tier):
    return all(f[-1] == 1 for f in families(tier))


def model_runs(tier):
    from harness import algo
    return algo.earley(tier)


hashseeds = c08.hashseeds

DIRECTED = c14.DIRECTED + [
    [["S", ["S", "S"]], ["S", ["a"]]],                        # ambiguous
    [["S", ["S", "S"]], ["S", ["a"]], ["S", []]],
    [["S", ["A", "B"]], ["A", []], ["B", ["b"]]],             # leading epsilon subtree
    [["S", ["A", "B", "A"]], ["A", []], ["B", ["b"]], ["A", ["a"]]],
    [["S", ["a", "S", "b"]], ["S", ["a", "b"]]],
]


# a variable is predicted where another production waits for the terminal of the same spelling (pool "clash": A is "a")
CLASH_DIRECTED = [
    [["S", ["b", "A"]], ["S", ["b", "a", "b"]], ["A", ["b"]]],
    [["S", ["A", "b"]], ["S", ["a", "a"]], ["A", ["b", "b"]]],
    [["S", ["B", "A"]], ["S", ["B", "a", "a"]], ["A", ["b"]], ["B", ["a"]], ["B", ["b", "a"]]],
    [["S", ["a", "S"]], ["S", ["a", "b", "a"]], ["S", ["B"]], ["B", ["a", "a"]]],
]


def generate(tier, seed, work, stats):
    cases = [c for c in c08.grammar_cases(tier, seed, work, stats, families(tier), [("upper", "ab")])
             if c["family"] != "directed"]
    for prods in DIRECTED:
        cases.append(dict(prods=prods, vpool="upper", tpool="ab", family="directed"))
    for prods in c08.random_grammars(1500 if tier == "quick" else 20000, seed + 15, maxp=5, maxb=3):
        cases.append(dict(prods=prods, vpool="upper", tpool="ab", family="random", clash=True))
        if len(cases) % 4 == 0:     # all parsers on grammars whose variables carry the values of the terminals
            cases.append(dict(prods=prods, vpool="clash", tpool="ab", family="random-clash"))
            cases.append(dict(prods=prods, vpool="dollar", tpool="ab", family="random-dollar-variable"))
    for prods in CLASH_DIRECTED:
        cases.append(dict(prods=prods, vpool="upper", tpool="ab", family="directed-clash", clash=True))
    for c in cases:
        c["L"] = 4
    return cases


class BadTree(Exception):
    pass


def tree_json(t, depth=0, path=()):
    from harness import cfgh
    if depth > 25 or id(t) in path:
        raise BadTree("cyclic or too deep")
    if len(t.sons) > 50:
        raise BadTree("too wide")
    return {"v": cfgh.sym_tag(t.value) if not isinstance(t.value, str) else "O:" + t.value,
            "sons": [tree_json(s, depth + 1, path + (id(t),)) for s in t.sons]}


def _cyclefree(edges):
    for a in list(edges):
        seen, todo = set(), list(edges.get(a, ()))
        while todo:
            x = todo.pop()
            if x == a:
                return False
            if x not in seen:
                seen.add(x)
                todo.extend(edges.get(x, ()))
    return True


def rd_domain(prods, left):
    heads = {h for h, _ in prods}
    if any(not b for _, b in prods):
        return False
    unit, rec = {}, {}
    for h, b in prods:
        if len(b) == 1 and b[0].isupper():
            unit.setdefault(h, set()).add(b[0])
        x = b[0] if left else b[-1]
        if x.isupper():
            rec.setdefault(h, set()).add(x)
    return _cyclefree(unit) and _cyclefree(rec)


def tree_event(op, G, P, w, tree):
    from harness import cfgh, guard
    try:
        ev = {"op": op, "G": G, "P": P, "w": cfgh.tagw(w), "tree": tree_json(tree)}
    except BadTree as e:
        return {"op": op, "G": G, "P": P, "w": cfgh.tagw(w), "badtree": str(e)}
    for key, fn in (("left", tree.get_leftmost_derivation), ("right", tree.get_rightmost_derivation)):
        r = guard.call(fn)
        if r[0] == "ok":
            ev[key] = [[cfgh.sym_tag(x) for x in form] for form in r[1]]
        else:
            ev["derexc"] = key + ":" + (r[1] if r[0] == "exc" else "Timeout")
    return ev


def replay(case):
    from harness import cfgh, guard
    from pyformlang.cfg.llone_parser import LLOneParser
    from pyformlang.cfg.recursive_decent_parser import RecursiveDecentParser
    g, start, tagged = cfgh.make(case["prods"], case["vpool"], case["tpool"])
    G = cfgh.project(g)
    Lw = case["L"]
    words = cfgh.words_upto(case["tpool"], Lw)
    evs = []
    # ---- CNF trees (non-empty words: the normal form drops the empty word)
    rn = guard.call(g.to_normal_form, timeout=4.0)
    if rn[0] == "ok":
        P = cfgh.project(rn[1])
        res, ws = [], []
        for w in words:
            if not w:
                continue
            r = guard.call(g.get_cnf_parse_tree, list(w), timeout=3.0)
            ws.append(cfgh.tagw(w))
            if r[0] == "ok":
                res.append("tree")
                evs.append(tree_event("cnf_tree", G, P, w, r[1]))
            else:
                res.append(r[1] if r[0] == "exc" else "Timeout")
        evs.append({"op": "cnf_parse", "G": G, "L": Lw, "words": ws, "results": res,
                    "refusal": "DerivationDoesNotExist", "skip": []})
    # ---- LL(1) trees
    parser = LLOneParser(g)
    rl = guard.call(parser.is_llone_parsable)
    if rl[0] == "ok" and rl[1]:
        # the library says LL(1): every tree it hands out is judged, and a non-member is refused with the documented
        # exception, also on grammars with useless symbols (membership of such grammars is C14's business, not claimed here)
        res = []
        for w in words:
            r = guard.call(LLOneParser(g).get_llone_parse_tree, list(w), timeout=2.0)
            if r[0] == "ok":
                res.append("tree")
                evs.append(tree_event("llone_tree", G, G, w, r[1]))
            else:
                res.append(r[1] if r[0] == "exc" else "Timeout")
        evs.append({"op": "llone_refuse", "G": G, "L": Lw, "words": [cfgh.tagw(w) for w in words], "results": res,
                    "refusal": "NotParsableException", "skip": [cfgh.tagw(w) for w in words]})
    # ---- recursive descent, both directions, inside the termination domain only
    for left in (True, False):
        if not rd_domain(case["prods"], left):
            continue
        op = "rd_parse_left" if left else "rd_parse_right"
        res = []
        for w in words:
            r = guard.call(RecursiveDecentParser(g).get_parse_tree, list(w), left, timeout=3.0)
            if r[0] == "ok":
                res.append("tree")
                evs.append(tree_event("rd_tree_left" if left else "rd_tree_right", G, G, w, r[1]))
            else:
                res.append(r[1] if r[0] == "exc" else "Timeout")
        evs.append({"op": op, "G": G, "L": Lw, "words": [cfgh.tagw(w) for w in words], "results": res,
                    "refusal": "NotParsableException", "skip": []})
    # ---- feature-free FCFG (Earley) trees
    from pyformlang.fcfg import FCFG, FeatureProduction, FeatureStructure
    fprods = [FeatureProduction(p.head, p.body, FeatureStructure(), [FeatureStructure() for _ in p.body])
              for p in g.productions]
    for w in words:
        fg = FCFG(start_symbol=g.start_symbol, productions=set(fprods))
        r = guard.call(fg.get_parse_tree, list(w), timeout=3.0)
        if r[0] == "ok":
            evs.append(tree_event("fcfg_tree", G, G, w, r[1]))
    if case.get("clash"):
        # the same productions with variables spelled like the terminals (Variable("a") next to Terminal("a")): only the
        # Earley parser is asked (the other parsers are not claimed on such grammars)
        gc, _, _ = cfgh.make(case["prods"], "clash", case["tpool"])
        Gc = cfgh.project(gc)
        fprods = [FeatureProduction(p.head, p.body, FeatureStructure(), [FeatureStructure() for _ in p.body]) for p in gc.productions]
        for w in words:
            fg = FCFG(start_symbol=gc.start_symbol, productions=set(fprods))
            r = guard.call(fg.get_parse_tree, list(w), timeout=3.0)
            if r[0] == "ok":
                evs.append(tree_event("fcfg_tree", Gc, Gc, w, r[1]))
    return evs


def features(ev, clause):
    from harness import cfgh
    f = cfgh.cfg_features(ev["G"])
    if "tree" in ev:
        def amb(t):
            return False
        f["word_len"] = len(ev["w"])
    return f
