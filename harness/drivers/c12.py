"""C12 - CFG is_empty / is_finite / generating, nullable, reachable symbols / get_words are exact."""
from harness import core, tlaparse
from harness.drivers import c08

TRACE = "TraceCFG"
ASSUMPTIONS = c08.ASSUMPTIONS + [
    "get_words(n) for n in 0..L and unbounded (n=-1) on finite languages; termination decided by a step budget and alarm",
    "unbounded enumeration of a finite language is compared with Lang(G, K), K = 30 (longer than any word of a finite language in the generated families)",
]


def families(tier):
    if tier == "quick":
        return [(2, 2, 3, 2, 2), (3, 1, 3, 2, 4), (2, 1, 2, 3, 1)]
    return [(2, 2, 3, 2, 1), (3, 1, 3, 2, 1), (2, 2, 2, 3, 1), (3, 2, 3, 2, 8), (2, 2, 4, 2, 16)]


L = c08.L
bounds = lambda tier: c08.bounds(tier).replace("words up to", "get_words bounds 0..") + "; unbounded on finite languages"


def exhaustive(tier):
    return all(f[-1] == 1 for f in families(tier))


def model_runs(tier):
    return [dict(name="CFGGen-M1", module="CFGGen", timeout=900,
                 cfg=c08.gen_cfg(2, 1, 3, 2, invariants=("DerivOK", "EmptyOK", "NullOK", "FiniteOK", "TrimOK")))]


hashseeds = c08.hashseeds


def generate(tier, seed, work, stats):
    cases = c08.grammar_cases(tier, seed, work, stats, families(tier), c08.POOLS)
    for prods in c08.random_grammars(1500 if tier == "quick" else 20000, seed + 12):
        cases.append(dict(prods=prods, vpool="upper", tpool="ab", family="random"))
        if len(cases) % 10 == 0:       # the same productions in a grammar object without start symbol (empty language)
            cases.append(dict(prods=prods, vpool="upper", tpool="ab", family="random-no-start-symbol", nostart=True))
    for c in cases:
        c["L"] = L(tier)
    cases += [c for c in core.record_tests(["/repo/pyformlang"], work, {"is_empty", "is_finite", "get_generating_symbols", "get_nullable_symbols", "get_reachable_symbols"}, stats) if "G" in c["recorded"][0]]
    return cases


def _maybe_finite(prods):
    """Harness-side guess (only decides whether the unbounded call is issued; TLC's IsFiniteLang judges)."""
    heads = {h for h, _ in prods}
    gen = set()
    changed = True
    while changed:
        changed = False
        for h, b in prods:
            if h not in gen and all(x in gen or x not in heads and x.islower() for x in b):
                gen.add(h)
                changed = True
    useful = [(h, b) for h, b in prods if h in gen and all(x in gen or x.islower() for x in b)]
    edges = {}
    for h, b in useful:
        for x in b:
            if x in gen:
                edges.setdefault(h, set()).add(x)
    # reachable from S
    reach, todo = {"S"}, ["S"]
    while todo:
        x = todo.pop()
        for y in edges.get(x, ()):
            if y not in reach:
                reach.add(y)
                todo.append(y)
    # any cycle among reachable useful variables -> possibly infinite
    for v in reach:
        seen, todo = set(), list(edges.get(v, ()))
        while todo:
            x = todo.pop()
            if x == v:
                return False
            if x not in seen:
                seen.add(x)
                todo.extend(edges.get(x, ()))
    return True


def replay(case):
    from harness import cfgh, guard
    g, start, tagged = cfgh.make(case["prods"], case["vpool"], case["tpool"], declare=case.get("declare", False), container=case.get("container"), nostart=bool(case.get("nostart")))
    G = cfgh.project(g)
    evs = [{"op": "new", "G": G, "start": start, "prods": tagged}]
    evs.append(cfgh.bool_event("is_empty", G, guard.call(g.is_empty)))
    evs.append(cfgh.bool_event("is_finite", G, guard.call(g.is_finite)))
    for op in ("get_generating_symbols", "get_nullable_symbols", "get_reachable_symbols"):
        evs.append(cfgh.set_event(op, G, guard.call(getattr(g, op))))
    ns = list(range(0, case["L"] + 1))
    if _maybe_finite(case["prods"]):
        ns.append(-1)
    for n in ns:
        # a fresh object per enumeration bound: history effects (cached normal form) belong to C19
        g2, _, _ = cfgh.make(case["prods"], case["vpool"], case["tpool"], declare=case.get("declare", False), container=case.get("container"), nostart=bool(case.get("nostart")))
        r = guard.take(lambda: g2.get_words(n), 600, timeout=3.0)
        ev = {"op": "get_words", "G": G, "n": n, "K": 30, "items": [], "status": r[0], "exhausted": False}
        if r[0] == "ok":
            ev["items"] = [[cfgh.sym_tag(x) for x in w] for w in r[1]]
            ev["exhausted"] = r[2]
        elif r[0] == "exc":
            ev["exc"], ev["msg"] = r[1], r[2]
        else:
            ev["items"] = [[cfgh.sym_tag(x) for x in w] for w in r[1]]
        evs.append(ev)
    # the same queries on an object that was first asked about the empty word (membership works on the same tables)
    g4, _, _ = cfgh.make(case["prods"], case["vpool"], case["tpool"], declare=case.get("declare", False), container=case.get("container"), nostart=bool(case.get("nostart")))
    guard.call(g4.contains, [])
    guard.call(g4.generate_epsilon)
    for op in ("get_nullable_symbols", "get_generating_symbols"):
        evs.append(cfgh.set_event(op, G, guard.call(getattr(g4, op)), aged="contains-epsilon-first"))
    evs.append(cfgh.bool_event("is_empty", G, guard.call(g4.is_empty), aged="contains-epsilon-first"))
    r = guard.take(lambda: g4.get_words(2), 600, timeout=3.0)
    ev = {"op": "get_words", "G": G, "n": 2, "K": 30, "items": [], "status": r[0], "exhausted": False, "aged": "contains-epsilon-first"}
    if r[0] == "ok":
        ev["items"] = [[cfgh.sym_tag(x) for x in w] for w in r[1]]
        ev["exhausted"] = r[2]
    elif r[0] == "exc":
        ev["exc"], ev["msg"] = r[1], r[2]
    else:
        ev["items"] = [[cfgh.sym_tag(x) for x in w] for w in r[1]]
    evs.append(ev)
    G2 = cfgh.project(g)
    if G2 != G:
        evs.append({"op": "new", "G": G2, "start": start, "prods": tagged, "after": True})
    return evs


features = c08.features
