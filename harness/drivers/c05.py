"""C05 - Regex text means what the documented grammar says, in every representation."""
import random

from harness import core, tlaparse

TRACE = "TraceRegex"
ASSUMPTIONS = [
    "TLC and its Json module; harness projections of the regex's epsilon-NFA and CFG",
    "texts are rendered from TLC-generated token sequences in two spacing styles; words up to length 3 over the symbols of the token set",
    "empty text, missing right operand and the empty group are classified UNSPEC (documentation silent): ok or MisformedRegexError accepted there",
]
SPECIAL = {".", "|", "+", "*", "(", ")", "$"}
TOKSETS = {
    "core": ["a", "b", "|", "*", "(", ")", ".", "$"],
    # "E|" stands for the escaped operator backslash-| (TLC's cfg files cannot hold a backslash); the
    # driver substitutes the real token before rendering and logging
    "alt": ["ab", "a", "+", "epsilon", "E|", "(", ")", "*"],
    "esc": ["a", "E*", "E(", "E.", "|", "*", "(", ")"],
    "wide": ["a", "b", "ab", "|", "+", "*", "(", ")", ".", "$", "epsilon", "E+"],
}


def real(t):
    if t == "E_":
        return "\\ "        # the escaped blank: the symbol ' '
    return "\\" + t[1] if len(t) == 2 and t[0] == "E" and t[1] in SPECIAL else t


def families(tier):
    # (token set, max length, sample 1:k)
    if tier == "quick":
        return [("core", 5, 2), ("alt", 4, 1), ("esc", 4, 2)]
    return [("core", 6, 2), ("alt", 6, 4), ("esc", 5, 1), ("wide", 5, 4)]


def bounds(tier):
    return "; ".join("tokens %s: all strings up to length %d (1:%d)" % (TOKSETS[a], b, c) for a, b, c in families(tier)) + \
        "; two spacing styles; words up to length 3; combinators on a sample of pairs"


def exhaustive(tier):
    return all(f[-1] == 1 for f in families(tier))


def gen_cfg(tokens, maxlen, ast=False):
    t = ", ".join('"%s"' % x for x in tokens)
    return "SPECIFICATION Spec\nCONSTANTS Tokens = {%s}\n MaxLen = %d\nCHECK_DEADLOCK FALSE\n%s" % (
        t, maxlen, "INVARIANT ASTOK\n" if ast else "")


def model_runs(tier):
    return [dict(name="RegexGen-ASTOK", module="RegexGen", cfg=gen_cfg(TOKSETS["core"], 1, ast=True), timeout=600)]


def hashseeds(tier):
    return (0, 1)


def symbols_of(tokens):
    out = []
    for t in tokens:
        if t in SPECIAL or t == "epsilon":
            continue
        out.append(t[1:] if t.startswith("\\") else t)
    return sorted(set(out))


def generate(tier, seed, work, stats):
    rnd = random.Random(seed)
    cases = []
    wf_pool = []
    for name, maxlen, k in families(tier):
        toks = TOKSETS[name]
        states = core.tlc_dump("RegexGen", gen_cfg(toks, maxlen), work, stats=stats, name="RegexGen-%s-%d" % (name, maxlen))
        seqs = sorted([real(t) for t in tlaparse.to_json(st["ts"])] for st in states)
        alph = symbols_of([real(t) for t in toks]) + ["zz"]
        for i, ts in enumerate(seqs):
            if k > 1 and (i + seed) % k and len(ts) > 3:
                continue
            cases.append(dict(kind="text", toks=ts, style="spaced" if i % 2 else "minimal", alph=alph, L=3))
            if len(ts) <= 3:
                cases.append(dict(kind="text", toks=ts, style="minimal" if i % 2 else "spaced", alph=alph, L=3))
            if len(ts) <= 3 and ts:
                wf_pool.append((ts, alph))
    # well-formed texts rendered from ASTs, with minimal / full / redundant (1-3 extra pairs) parentheses
    states = core.tlc_dump("RegexASTGen", "INIT InitA\nNEXT NextA\nCHECK_DEADLOCK FALSE\n", work, stats=stats, workers=4, name="RegexASTGen")
    seqs = sorted([real(t) for t in tlaparse.to_json(st["rs"])] for st in states)
    for i, ts in enumerate(seqs):
        if tier == "quick" and (i + seed) % 3:
            continue
        cases.append(dict(kind="text", toks=ts, style="spaced" if i % 2 else "minimal", alph=["a", "b", "(", ")", " ", "zz"], L=3))
    for _ in range(600 if tier == "quick" else 6000):
        (a, alph), (b, _) = rnd.choice(wf_pool), rnd.choice(wf_pool)
        cases.append(dict(kind="comb", toksA=a, toksB=b, alph=sorted(set(alph) | set(_)), L=3, aged=bool(len(cases) % 2)))
    # operands whose own text is not settled by the documentation (empty text, empty group, missing right operand): the
    # combination is judged against the language the operand itself shows
    odd = [[], ["(", ")"], ["a", "|"], ["(", "a", "|", ")"], ["epsilon"], ["$"]]
    plain = [["a"], ["a", "b"], ["a", "|", "b"], ["a", "*"], ["epsilon"]]
    for x in odd:
        for y in plain + odd:
            for a, b in ((x, y), (y, x)):
                cases.append(dict(kind="comb", toksA=a, toksB=b, alph=["a", "b", "zz"], L=3, aged=bool(len(cases) % 2)))
    return cases


def render(toks, style):
    if style == "spaced":
        return " ".join(toks)
    out = []
    for i, t in enumerate(toks):
        if i and toks[i - 1] not in SPECIAL and t not in SPECIAL:
            out.append(" ")
        out.append(t)
    return "".join(out)


def _acc(rx, words, tagw):
    from harness import guard
    acc = []
    for w in words:
        r = guard.call(rx.accepts, list(w), timeout=3.0)
        if r[0] != "ok":
            return None, (r[1] if r[0] == "exc" else "Timeout")
        if r[1]:
            acc.append(tagw(w))
    return acc, None


def replay(case):
    import itertools
    from harness import fa, cfgh, guard
    from pyformlang.regular_expression import Regex
    alph = case["alph"]
    words = []
    for n in range(case["L"] + 1):
        words.extend(itertools.product(alph, repeat=n))
    tagw = lambda w: ["s:" + x for x in w]
    talph = ["s:" + x for x in alph]
    if case["kind"] == "text":
        text = render(case["toks"], case["style"])
        ev = {"op": "regex", "toks": case["toks"], "text": text, "style": case["style"], "alph": talph, "L": case["L"], "acc": []}
        r = guard.call(Regex, text, timeout=4.0)
        if r[0] != "ok":
            ev["outcome"] = r[1] if r[0] == "exc" else "Timeout"
            ev["msg"] = r[2] if r[0] == "exc" else ""
            return [ev]
        rx = r[1]
        ev["outcome"] = "ok"
        acc, exc = _acc(rx, words, tagw)
        if exc:
            ev["outcome"] = "accepts:" + exc
            return [ev]
        ev["acc"] = acc
        r2 = guard.call(Regex(text).to_epsilon_nfa, timeout=4.0)
        if r2[0] == "ok":
            ev["R"] = fa.project(r2[1])
        r3 = guard.call(Regex(text).to_cfg, timeout=4.0)
        if r3[0] == "ok":
            ev["G"] = cfgh.project(r3[1])
        r4 = guard.call(lambda: Regex(str(Regex(text))), timeout=4.0)
        if r4[0] == "ok":
            sacc, exc = _acc(r4[1], words, tagw)
            if not exc:
                ev["stracc"] = sacc
                ev["strtext"] = str(Regex(text))
        evs = [ev]
        # the object that was queried above is asked for its grammar twice, the second time with another start symbol
        r5 = guard.call(rx.to_cfg, timeout=4.0)
        r6 = guard.call(lambda: rx.to_cfg(starting_symbol="T"), timeout=4.0)
        # ... and with starting symbols spelled like the variables the conversion introduces itself (A0, A1, ...)
        r7 = guard.call(lambda: rx.to_cfg(starting_symbol="A1"), timeout=4.0)
        r8 = guard.call(lambda: rx.to_cfg(starting_symbol="A0"), timeout=4.0)
        for k, rr in enumerate((r5, r6, r7, r8)):
            e2 = {"op": "regex_cfg_again", "toks": case["toks"], "alph": talph, "L": case["L"], "call": k}
            if rr[0] == "ok":
                e2["G"] = cfgh.project(rr[1])
            else:
                e2["exc"] = rr[1] if rr[0] == "exc" else "Timeout"
            evs.append(e2)
        return evs
    # combinators
    ta, tb = render(case["toksA"], "spaced"), render(case["toksB"], "spaced")
    evs = []
    for op, fn in (("regex_union", lambda x, y: x.union(y)), ("regex_or", lambda x, y: x | y),
                   ("regex_concatenate", lambda x, y: x.concatenate(y)), ("regex_add", lambda x, y: x + y),
                   ("regex_kleene_star", lambda x, y: x.kleene_star())):
        ev = {"op": op, "toksA": case["toksA"], "toksB": case["toksB"], "alph": talph, "L": case["L"],
              "acc": [], "accA": [], "accB": []}
        if op == "regex_kleene_star":
            del ev["toksB"]
        ra = guard.call(Regex, ta)
        rb = guard.call(Regex, tb) if op != "regex_kleene_star" else ra
        if case.get("aged") and ra[0] == "ok" and rb[0] == "ok":
            # the operands answered queries before being combined (cached automata must not leak into the result)
            for x in (ra[1], rb[1]):
                guard.call(x.accepts, ["a"])
                guard.call(x.accepts, [])
        if ra[0] != "ok" or rb[0] != "ok":
            ev["exc"] = "operand"
            evs.append(ev)
            continue
        r = guard.call(fn, ra[1], rb[1], timeout=4.0)
        if r[0] != "ok":
            ev["exc"] = r[1] if r[0] == "exc" else "Timeout"
        else:
            acc, exc = _acc(r[1], words, tagw)
            if exc:
                ev["exc"] = "accepts:" + exc
            else:
                ev["acc"] = acc
                ev["accA"], _ = _acc(ra[1], words, tagw)
                ev["accB"], _ = _acc(rb[1] if op != "regex_kleene_star" else ra[1], words, tagw)
        evs.append(ev)
    return evs


def features(ev, clause):
    toks = ev.get("toks") or ev.get("toksA") or []
    return {"has_escape": any(t.startswith("\\") for t in toks),
            "empty_group": any(toks[i] == "(" and i + 1 < len(toks) and toks[i + 1] == ")" for i in range(len(toks))),
            "outcome": ev.get("outcome", "")}
