"""C14 - LL(1): get_first_set / get_follow_set are the textbook sets, is_llone_parsable() is the LL(1) verdict,
get_llone_parse_tree parses exactly the members of LL(1) grammars and refuses the rest with NotParsableException."""
from harness import core, tlaparse
from harness.drivers import c08

TRACE = "TraceParse"
ASSUMPTIONS = c08.ASSUMPTIONS + [
    "domain: grammars without useless symbols (decided by TLC with UsefulG; other grammars are judged UNSPEC)",
    "FIRST/FOLLOW compared on the variables; '$' is the end marker, epsilon is marked in FIRST of nullable variables",
]


def families(tier):
    if tier == "quick":
        return [(2, 2, 3, 2, 1), (3, 1, 3, 2, 2), (3, 2, 3, 2, 16), (3, 1, 3, 3, 40)]
    return [(2, 2, 3, 2, 1), (3, 1, 3, 2, 1), (3, 2, 3, 2, 2), (2, 2, 4, 2, 4), (2, 2, 2, 3, 1)]


L = lambda tier: 4
bounds = lambda tier: "; ".join("|V|<=%d |T|<=%d <=%d productions bodies<=%d sampled 1:%d" % f for f in families(tier)) + \
    "; useless-free grammars only (filtered); all words up to length 4 (members, proper prefixes, extensions)"


def exhaustive(tier):
    return all(f[-1] == 1 for f in families(tier))


def model_runs(tier):
    return []


hashseeds = c08.hashseeds


def useless_free(prods):
    """Harness-side filter (saves replay time only; TLC re-decides the domain with UsefulG)."""
    heads = {h for h, _ in prods}
    gen = set()
    changed = True
    while changed:
        changed = False
        for h, b in prods:
            if h not in gen and all(x in gen or x.islower() for x in b):
                gen.add(h)
                changed = True
    if not prods or any(h not in gen or any(x not in gen and not x.islower() for x in b) for h, b in prods):
        return False
    reach, todo = {"S"}, ["S"]
    while todo:
        x = todo.pop()
        for h, b in prods:
            if h == x:
                for y in b:
                    if y in heads and y not in reach:
                        reach.add(y)
                        todo.append(y)
    return all(h in reach for h in heads)


DIRECTED = [
    [["S", ["A", "c"]], ["A", ["B"]], ["B", ["b"]], ["B", []]],                  # nullable non-empty body (A -> B)
    [["S", ["A", "B"]], ["A", []], ["B", ["b"]]],
    [["S", ["A", "B"]], ["A", ["a"]], ["A", []], ["B", ["b"]], ["B", []]],
    [["S", ["a"]]],
    [["S", ["a", "S"]], ["S", []]],
    [["S", ["A", "a"]], ["A", ["B", "C"]], ["B", ["b"]], ["B", []], ["C", ["c"]], ["C", []]],
    [["S", ["S", "a"]], ["S", ["b"]]],                                            # left recursion
    [["S", ["a", "A"]], ["S", ["a", "B"]], ["A", ["a"]], ["B", ["b"]]],          # common prefix
    [["S", ["A", "a"]], ["A", ["B"]], ["A", []], ["B", ["C", "b", "C"]], ["C", ["c"]], ["C", []]],   # repeated nullable variable around a terminal
    [["S", ["A", "b"]], ["A", ["A", "b"]], ["A", ["B"]], ["B", ["C"]], ["C", []], ["C", ["c"]]],     # left recursion, nullable through a chain
    # a variable that is generating through one production and nullable through another one, inside a nullable context
    [["S", ["A", "c"]], ["A", ["a"]], ["A", ["B", "C"]], ["B", ["b"]], ["B", []], ["C", []]],
    [["S", ["A", "c"]], ["A", ["a"]], ["A", ["B", "B"]], ["B", ["b"]], ["B", []]],
    [["S", ["C", "c"]], ["C", ["A", "B"]], ["A", ["a"]], ["A", ["B", "B"]], ["B", ["b"]], ["B", []]],
    [["S", ["C", "c"]], ["C", ["A"]], ["A", ["a"]], ["A", ["B"]], ["B", ["b"]], ["B", []]],
    [["S", ["C", "c"]], ["C", ["A", "B"]], ["A", ["a"]], ["A", ["B"]], ["B", []]],
    [["S", ["C", "c"]], ["C", ["A", "B"]], ["A", ["a"]], ["A", ["B", "B"]], ["B", []]],
]


def generate(tier, seed, work, stats):
    cases = [c for c in c08.grammar_cases(tier, seed, work, stats, families(tier), [("upper", "ab")])
             if useless_free(c["prods"])]
    cases = [c for c in cases if c["family"] != "directed"]
    for prods in DIRECTED:
        cases.append(dict(prods=prods, vpool="upper", tpool="ab", family="directed"))
    for prods in c08.random_grammars(4000 if tier == "quick" else 40000, seed + 14, maxp=6, maxb=3):
        if useless_free(prods):
            cases.append(dict(prods=prods, vpool="upper", tpool="ab", family="random"))
            if len(cases) % 5 == 0:
                cases.append(dict(prods=prods, vpool="clash", tpool="ab", family="random-clash"))
                cases.append(dict(prods=prods, vpool="dollar", tpool="ab", family="random-dollar-variable"))
    for c in cases:
        c["L"] = 4
    # P3: the calls the repository's own tests make, re-judged by the trace specification
    cases += core.record_tests(["/repo/pyformlang"], work, {"get_first_set", "get_follow_set", "is_llone_parsable"}, stats)
    return cases


def _dict_event(op, G, r):
    from harness import cfgh
    ev = {"op": op, "G": G}
    if r[0] == "ok":
        res = []
        for k, vals in r[1].items():
            kt = cfgh.sym_tag(k)
            if kt.startswith("V:"):
                res.append([kt, sorted("$" if v == "$" else cfgh.sym_tag(v) for v in vals)])
        ev["res"] = sorted(res)
    elif r[0] == "exc":
        ev["exc"], ev["msg"] = r[1], r[2]
    else:
        ev["exc"] = "Timeout"
    return ev


def replay(case):
    from harness import cfgh, guard
    from pyformlang.cfg.llone_parser import LLOneParser
    g, start, tagged = cfgh.make(case["prods"], case["vpool"], case["tpool"])
    G = cfgh.project(g)
    evs = []
    parser = LLOneParser(g)
    evs.append(_dict_event("get_first_set", G, guard.call(parser.get_first_set)))
    evs.append(_dict_event("get_follow_set", G, guard.call(parser.get_follow_set)))
    evs.append(cfgh.bool_event("is_llone_parsable", G, guard.call(parser.is_llone_parsable)))
    # the same parser object asked again after the verdict / the table was computed, and after a parse
    evs.append(dict(_dict_event("get_follow_set", G, guard.call(parser.get_follow_set)), after="is_llone_parsable"))
    evs.append(dict(_dict_event("get_first_set", G, guard.call(parser.get_first_set)), after="is_llone_parsable"))
    guard.call(parser.get_llone_parsing_table)
    guard.call(parser.get_llone_parse_tree, [cfgh.TERM_POOLS[case["tpool"]]["a"]], timeout=2.0)
    evs.append(dict(_dict_event("get_follow_set", G, guard.call(parser.get_follow_set)), after="parse"))
    evs.append(dict(cfgh.bool_event("is_llone_parsable", G, guard.call(parser.is_llone_parsable)), after="parse"))
    # the verdict on what the clean-up conversions return (same language, and the same productions when there is nothing
    # to clean up): judged against the projection of that grammar
    for conv in ("eliminate_unit_productions", "remove_useless_symbols"):
        rc = guard.call(getattr(g, conv), timeout=3.0)
        if rc[0] == "ok" and len(rc[1].productions) <= 12:
            G2 = cfgh.project(rc[1])
            p2 = LLOneParser(rc[1])
            evs.append(dict(cfgh.bool_event("is_llone_parsable", G2, guard.call(p2.is_llone_parsable)), via=conv))
            evs.append(dict(_dict_event("get_follow_set", G2, guard.call(p2.get_follow_set)), via=conv))
    # a grammar object that answered other queries before the parser was built on it
    g6, _, _ = cfgh.make(case["prods"], case["vpool"], case["tpool"])
    for q in (g6.is_empty, g6.get_generating_symbols):
        guard.call(q, timeout=2.0)
    p6 = LLOneParser(g6)
    evs.append(dict(_dict_event("get_first_set", G, guard.call(p6.get_first_set)), aged="grammar queried first"))
    evs.append(dict(_dict_event("get_follow_set", G, guard.call(p6.get_follow_set)), aged="grammar queried first"))
    evs.append(dict(cfgh.bool_event("is_llone_parsable", G, guard.call(p6.is_llone_parsable)), aged="grammar queried first"))
    words = cfgh.words_upto(case["tpool"], case["L"], extra=("c",) if any("c" in b for _, b in case["prods"]) else ())
    if len(words) > 60:
        words = [w for w in words if len(w) <= 3]
    # words that end in a symbol spelled like the parser's end marker (an unknown symbol: never a member)
    words = words + [tuple(w) + ("$",) for w in words if len(w) <= 2]
    results = []
    for w in words:
        r = guard.call(LLOneParser(g).get_llone_parse_tree, list(w), timeout=2.0)
        results.append("tree" if r[0] == "ok" else (r[1] if r[0] == "exc" else "Timeout"))
    evs.append({"op": "llone_parse", "G": G, "L": case["L"], "words": [cfgh.tagw(w) for w in words], "results": results})
    results6 = []
    for w in words[:40]:
        r = guard.call(LLOneParser(g6).get_llone_parse_tree, list(w), timeout=2.0)
        results6.append("tree" if r[0] == "ok" else (r[1] if r[0] == "exc" else "Timeout"))
    evs.append({"op": "llone_parse", "G": G, "L": case["L"], "words": [cfgh.tagw(w) for w in words[:40]], "results": results6,
                "aged": "grammar queried first"})
    return evs


def features(ev, clause):
    from harness import cfgh
    f = cfgh.cfg_features(ev["G"])
    return f
