"""C10 - CFG union / concatenate / get_closure / get_positive_closure / reverse / substitute (and | + ~)."""
import random

from harness import core, tlaparse
from harness.drivers import c08

TRACE = "TraceCFG"
BATCH = 6000         # about 36 events per case, each with three grammar projections
ASSUMPTIONS = c08.ASSUMPTIONS + [
    "pairs of grammars drawn from the TLC-generated family (every grammar paired with a rotating partner and with itself)",
]


def families(tier):
    if tier == "quick":
        return [(2, 2, 2, 2, 1), (2, 1, 3, 2, 2)]
    return [(2, 2, 2, 2, 1), (2, 2, 3, 2, 2), (3, 1, 3, 2, 2)]


L = lambda tier: 4
bounds = lambda tier: "; ".join("|V|<=%d |T|<=%d <=%d productions bodies<=%d sampled 1:%d" % f for f in families(tier)) + \
    "; ordered pairs (rotating partner, same object twice, shared variable names, fresh-name look-alikes); L=4"


def exhaustive(tier):
    return False


def model_runs(tier):
    return []


hashseeds = c08.hashseeds


def generate(tier, seed, work, stats):
    singles = c08.grammar_cases(tier, seed, work, stats, families(tier), [("upper", "ab"), ("alg", "ab"), ("subs_lo", "ab"), ("int", "ab"), ("subs_hi", "ab")])
    rnd = random.Random(seed)
    cases = []
    n = len(singles)
    npart = 2 if tier == "quick" else 6
    for i, c in enumerate(singles):
        partners = {i} | {(i * 7 + 13 * k + seed) % n for k in range(1, npart)}
        for j in partners:
            d = singles[j]
            cases.append(dict(prodsA=c["prods"], prodsB=d["prods"], vpoolA=c["vpool"], vpoolB=d["vpool"] if j != i else c["vpool"],
                              tpool="ab", same=(j == i), family="CFGGen-pairs", L=4))
            if (i + j) % 9 == 0:
                # variables that carry the values of the terminals, on one side or on both
                cases.append(dict(prodsA=c["prods"], prodsB=d["prods"], vpoolA="clash", vpoolB="clash" if (i + j) % 2 else d["vpool"],
                                  tpool="ab", same=(j == i), family="CFGGen-pairs-clash", L=4))
            if j != i and (i + j) % 13 == 0:
                # an operand whose productions all have empty bodies and none of them belongs to the start symbol (empty
                # language, not the epsilon language), on either side
                deg = [["A", []], ["B", []]] if (i + j) % 2 else [["A", []]]
                if (i + j) // 13 % 2:
                    cases.append(dict(prodsA=deg, prodsB=d["prods"], vpoolA="upper", vpoolB=d["vpool"], tpool="ab", same=False,
                                      family="CFGGen-pairs-empty-bodies-only", L=4))
                else:
                    cases.append(dict(prodsA=c["prods"], prodsB=deg, vpoolA=c["vpool"], vpoolB="upper", tpool="ab", same=False,
                                      family="CFGGen-pairs-empty-bodies-only", L=4))
            if j != i and (i + j) % 11 == 0:
                # one operand is a grammar object without start symbol (empty language)
                cases.append(dict(prodsA=c["prods"], prodsB=d["prods"], vpoolA=c["vpool"], vpoolB=d["vpool"], tpool="ab",
                                  same=False, nostart="AB"[(i + j) // 11 % 2], family="CFGGen-pairs-no-start-symbol", L=4))
            if j != i and (i + j) % 7 == 0:
                cases.append(dict(prodsA=c["prods"], prodsB=d["prods"], vpoolA="upper", vpoolB="other", tpool="ab",
                                  same=False, family="CFGGen-pairs-disjoint-variables", L=4))
            if j != i and (i + j) % 5 == 0:
                # the second operand's terminals are spelled like the first operand's variables
                cases.append(dict(prodsA=c["prods"], prodsB=d["prods"], vpoolA="upper", vpoolB="other", tpool="ab", tpoolB="upperT",
                                  same=False, family="CFGGen-pairs-terminal-like-variable", L=4))
    for k in range(1000 if tier == "quick" else 20000):
        a, b = c08.random_grammars(2, seed * 100003 + k, maxp=4, maxb=3)
        cases.append(dict(prodsA=a, prodsB=b, vpoolA="upper", vpoolB=rnd.choice(["upper", "alg"]), tpool="ab", same=False,
                          family="random", L=4))
    return cases


def with_answers(ev, r, tpool):
    """Add what the returned grammar itself answers (contains) on all words up to length 3."""
    from harness import cfgh, guard
    if r[0] != "ok":
        return ev
    words = cfgh.words_upto(tpool, 3)
    acc = []
    for w in words:
        r2 = guard.call(r[1].contains, list(w), timeout=3.0)
        if r2[0] != "ok":
            return ev
        if r2[1]:
            acc.append(cfgh.tagw(w))
    ev["rwords"], ev["racc"] = [cfgh.tagw(w) for w in words], acc
    return ev


def replay(case):
    from harness import cfgh, guard
    a, sa, ta = cfgh.make(case["prodsA"], case["vpoolA"], case["tpool"], nostart=case.get("nostart") == "A")
    if case["same"]:
        b, sb, tb = a, sa, ta
    else:
        b, sb, tb = cfgh.make(case["prodsB"], case["vpoolB"], case.get("tpoolB", case["tpool"]), nostart=case.get("nostart") == "B")
    A, B = cfgh.project(a), cfgh.project(b)
    Lw = case["L"]
    evs = [{"op": "new", "G": A, "start": sa, "prods": ta}, {"op": "new", "G": B, "start": sb, "prods": tb}]
    for op, fn in (("union", lambda: a.union(b)), ("or", lambda: a | b), ("concatenate", lambda: a.concatenate(b)),
                   ("add", lambda: a + b)):
        evs.append(cfgh.result_event(op, A, guard.call(fn, timeout=4.0), H=B, L=Lw, same=case["same"]))
    for op, fn in (("get_closure", a.get_closure), ("get_positive_closure", a.get_positive_closure),
                   ("reverse", a.reverse), ("invert", lambda: ~a)):
        evs.append(cfgh.result_event(op, A, guard.call(fn, timeout=4.0), L=Lw))
    t = cfgh.TERM_POOLS[case["tpool"]]["a"]
    from pyformlang.cfg import Terminal
    evs.append(cfgh.result_event("substitute", A, guard.call(lambda: a.substitute({Terminal(t): b}), timeout=4.0),
                                 H=B, L=Lw, t=cfgh.tt(t), same=case["same"]))
    # two terminals substituted at once, each grammar mentioning the other key, both insertion orders of the dictionary
    t2 = cfgh.TERM_POOLS[case["tpool"]]["b"]
    if "tpoolB" not in case and t != t2:
        for first in (0, 1):
            pairs = [(Terminal(t), b), (Terminal(t2), a)]
            if first:
                pairs.reverse()
            evs.append(cfgh.result_event("substitute2", A, guard.call(lambda: a.substitute(dict(pairs)), timeout=4.0),
                                         H=B, H2=A, L=Lw, t=cfgh.tt(t), t2=cfgh.tt(t2), order=first))
    # conversions of conversions: the operations applied to the normal form / epsilon-free form of a closure or union
    for first in (a.get_closure, a.get_positive_closure, lambda: a.union(b)):
        r1 = guard.call(first, timeout=4.0)
        if r1[0] != "ok":
            continue
        for mid in ("to_normal_form", "remove_epsilon"):
            r2 = guard.call(getattr(r1[1], mid), timeout=4.0)
            if r2[0] != "ok":
                continue
            Y = cfgh.project(r2[1])
            if len(Y["prods"]) > 40:
                continue
            for op in ("get_closure", "get_positive_closure", "reverse"):
                r3 = guard.call(getattr(r2[1], op), timeout=4.0)
                evs.append(with_answers(cfgh.result_event(op, Y, r3, L=Lw, chain=mid), r3, case["tpool"]))
    # the same operations on operands that were queried before (cached analyses must not leak into the results)
    for g in (a, b):
        for w in ([], ["a"], ["a", "b"]):
            guard.call(g.contains, w)
        guard.call(g.is_empty)
    for op, fn in (("union", lambda: a.union(b)), ("concatenate", lambda: a.concatenate(b)), ("get_closure", a.get_closure),
                   ("reverse", a.reverse), ("invert", lambda: ~a)):
        r = guard.call(fn, timeout=4.0)
        evs.append(with_answers(cfgh.result_event(op, A, r, L=Lw, aged=True, **({"H": B} if op in ("union", "concatenate") else {})),
                                r, case["tpool"]))
    if cfgh.project(a) != A or cfgh.project(b) != B:
        evs.append({"op": "new", "G": cfgh.project(a), "start": sa, "prods": ta, "after": True})
    return evs


def features(ev, clause):
    from harness import cfgh
    f = cfgh.cfg_features(ev["G"])
    f["same"] = bool(ev.get("same"))
    return f
