"""C09 - remove_useless_symbols / remove_epsilon / eliminate_unit_productions / to_normal_form keep the
language (the empty word excepted where documented) and deliver the promised shape."""
from harness import core, tlaparse
from harness.drivers import c08

TRACE = "TraceCFG"
ASSUMPTIONS = c08.ASSUMPTIONS + [
    "remove_epsilon and to_normal_form are documented to drop the empty word: compared with Lang minus the empty word",
]


def families(tier):
    if tier == "quick":
        return [(2, 2, 3, 2, 2), (3, 1, 3, 2, 4), (2, 1, 2, 3, 1), (2, 2, 2, 4, 8)]
    return [(2, 2, 3, 2, 1), (3, 1, 3, 2, 1), (2, 2, 2, 3, 1), (3, 2, 3, 2, 8), (2, 2, 4, 2, 16), (2, 2, 2, 4, 4)]


L = c08.L
bounds = lambda tier: "; ".join("|V|<=%d |T|<=%d <=%d productions bodies<=%d sampled 1:%d" % f for f in families(tier)) + \
    "; language compared on words up to length %d; directed shapes (unit cycles, nullable chains, shared suffixes, CNF look-alike names)" % L(tier)


def exhaustive(tier):
    return all(f[-1] == 1 for f in families(tier))


def model_runs(tier):
    from harness import algo
    return algo.gen_null_worklist(tier)


hashseeds = c08.hashseeds


def generate(tier, seed, work, stats):
    cases = c08.grammar_cases(tier, seed, work, stats, families(tier), c08.POOLS)
    for prods in c08.random_grammars(1500 if tier == "quick" else 20000, seed + 9, maxp=6, maxb=5):
        cases.append(dict(prods=prods, vpool="upper", tpool="ab", family="random"))
    # helper-name look-alikes for both kinds of helper variables of the normal form (terminal C, long bodies)
    for prods in c08.random_grammars(600 if tier == "quick" else 8000, seed + 90, maxp=5, maxb=5):
        cases.append(dict(prods=prods, vpool="freshC", tpool="Cterm", family="random-helper-names"))
    for c in cases:
        c["L"] = L(tier)
    cases += [c for c in core.record_tests(["/repo/pyformlang"], work, {"remove_useless_symbols", "remove_epsilon", "eliminate_unit_productions", "to_normal_form"}, stats) if "G" in c["recorded"][0]]
    return cases


OPS = ("remove_useless_symbols", "remove_epsilon", "eliminate_unit_productions", "to_normal_form")


def replay(case):
    from harness import cfgh, guard
    g, start, tagged = cfgh.make(case["prods"], case["vpool"], case["tpool"], declare=case.get("declare", False))
    G = cfgh.project(g)
    evs = [{"op": "new", "G": G, "start": start, "prods": tagged}]
    for op in OPS:
        g2, _, _ = cfgh.make(case["prods"], case["vpool"], case["tpool"], declare=case.get("declare", False))     # fresh object per call (C19 owns histories)
        r = guard.call(getattr(g2, op), timeout=4.0)
        ev = cfgh.result_event(op, G, r, L=case["L"])
        if op == "to_normal_form" and r[0] == "ok":
            r2 = guard.call(r[1].is_normal_form)
            ev["isnf"] = bool(r2[1]) if r2[0] == "ok" else False
        evs.append(ev)
    # the same conversions on one object that was queried before, and conversions of their results (every result is
    # a grammar in its own right: it is judged against its own projection)
    g3, _, _ = cfgh.make(case["prods"], case["vpool"], case["tpool"], declare=case.get("declare", False))
    for q in (g3.is_empty, g3.get_generating_symbols, g3.get_nullable_symbols, g3.get_reachable_symbols, lambda: g3.contains([])):
        guard.call(q, timeout=3.0)
    for op in OPS:
        r = guard.call(getattr(g3, op), timeout=4.0)
        ev = cfgh.result_event(op, G, r, L=case["L"], aged=True)
        if op == "to_normal_form" and r[0] == "ok":
            r2 = guard.call(r[1].is_normal_form)
            ev["isnf"] = bool(r2[1]) if r2[0] == "ok" else False
        evs.append(ev)
        if r[0] != "ok" or len(r[1].productions) > 30:
            continue
        Y = cfgh.project(r[1])
        for op2 in OPS[:3]:
            if op2 == op:
                continue
            r3 = guard.call(getattr(r[1], op2), timeout=4.0)
            evs.append(cfgh.result_event(op2, Y, r3, L=case["L"], chain=op))
    # an object that is asked about the empty word before anything else, then converted
    g5, _, _ = cfgh.make(case["prods"], case["vpool"], case["tpool"], declare=case.get("declare", False))
    guard.call(g5.contains, [])
    for op in OPS:
        r = guard.call(getattr(g5, op), timeout=4.0)
        ev = cfgh.result_event(op, G, r, L=case["L"], aged="contains-epsilon-first")
        if op == "to_normal_form" and r[0] == "ok":
            r2 = guard.call(r[1].is_normal_form)
            ev["isnf"] = bool(r2[1]) if r2[0] == "ok" else False
        evs.append(ev)
    if cfgh.project(g3) != G:
        evs.append({"op": "new", "G": cfgh.project(g3), "start": start, "prods": tagged, "after": True})
    return evs


features = c08.features
