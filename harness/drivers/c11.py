"""C11 - cfg.intersection(r) and pda.intersection(r) with a regular language (Regex, DFA, NFA, epsilon-NFA) are exact."""
import random

from harness import core, tlaparse
from harness.drivers import c01, c05, c08, c13

TRACE = "TracePDA"
ASSUMPTIONS = c13.ASSUMPTIONS + [
    "the regular operand is projected to an abstract automaton (a Regex through the epsilon-NFA of a fresh equal Regex)",
    "pairs: every spec-generated grammar / PDA is paired with a rotating selection of spec-generated automata and regexes",
]


def bounds(tier):
    return ("grammars: CFGGen |V|<=2 |T|<=2 <=3 productions bodies<=2 (sampled); PDAs: PDAGen families of C13 (sampled); "
            "regular operands: FAGen enfa/nfa/dfa |Q|<=2 <=2 transitions over {a,b} and well-formed regexes over tokens of length<=3; "
            "words up to length 3|4; operand types other than Regex/automaton must raise NotImplementedError")


def exhaustive(tier):
    return False


def model_runs(tier):
    return []


def hashseeds(tier):
    return (0, 1, 2, 3)


def regular_operands(tier, seed, work, stats):
    ops = []
    for kind, nq, mt, k in (("enfa", 2, 2, 1), ("nfa", 2, 2, 1), ("dfa", 2, 2, 1), ("nfa", 3, 3, 25)):
        states = core.tlc_dump("FAGen", c01.gen_cfg(kind, nq, mt, 0, invariants=False, maxs=2, maxf=2), work, stats=stats,
                               name="FAGen-%s-q%d-t%d" % (kind, nq, mt))
        states = c01.sample(states, k, seed)
        for st in states:
            calls = tlaparse.to_json(st["hist"])
            if calls:
                ops.append(dict(rkind=kind, calls=calls))
    states = core.tlc_dump("RegexGen", c05.gen_cfg(["a", "b", "|", "*", "(", ")", "$"], 3), work, stats=stats, name="RegexGen-c11")
    for st in states:
        ts = tlaparse.to_json(st["ts"])
        if ts:
            ops.append(dict(rkind="regex", toks=ts))
    return ops


def generate(tier, seed, work, stats):
    rnd = random.Random(seed)
    ops = regular_operands(tier, seed, work, stats)
    rnd.shuffle(ops)
    gk, pk = (6, 12) if tier == "quick" else (1, 2)
    gcases = c08.grammar_cases(tier, seed, work, stats, [(2, 2, 3, 2, gk)], [("upper", "ab")])
    pfam = [(2, ("Z", "X"), ("a",), 2, 2, 1, pk), (1, ("Z", "X"), ("a", "b"), 2, 2, 1, max(1, pk // 3))]
    pcases = c13.pda_cases(tier, seed, work, stats, pfam)
    pcases = [c for c in pcases if not c.get("ctor")]
    per = 3 if tier == "quick" else 8
    cases = []
    k = 0
    for c in gcases:
        for _ in range(per):
            cases.append(dict(kind="cfg", prods=c["prods"], vpool="upper", tpool="ab", operand=ops[k % len(ops)], L=3, family="pairs"))
            k += 1
    # integer terminals: the variables of the result are numbered, so the result mixes Variable(n) and Terminal(n)
    int_ops = [dict(o, ypool="int") for o in ops if o["rkind"] != "regex"]
    for i, c in enumerate(gcases):
        if i % 3 == 0 and int_ops:
            cases.append(dict(kind="cfg", prods=c["prods"], vpool="upper", tpool="int", operand=int_ops[(k + i) % len(int_ops)], L=3,
                              family="pairs-integer-terminals"))
    for i, c in enumerate(gcases):       # a grammar object without start symbol: the intersection is empty
        if i % 10 == 3:
            cases.append(dict(kind="cfg", prods=c["prods"], vpool="upper", tpool="ab", operand=ops[(k + i) % len(ops)], L=3,
                              family="pairs-no-start-symbol", nostart=True))
    for c in pcases:
        for _ in range(per):
            cases.append(dict(kind="pda", hist=c["hist"], spool=c["spool"], kpool=c["kpool"], operand=ops[k % len(ops)],
                              operand2=ops[(k * 7 + 3) % len(ops)], L=3, family="pairs"))
            k += 1
    # chained intersections (pda & r1) & r2 with two nondeterministic 3-state operands over the same integer state names:
    # the names of product states and of subset states are then built from the same spellings
    nfa_ops = [o for o in ops if o["rkind"] in ("nfa", "enfa") and len(o["calls"]) >= 4]
    if nfa_ops and pcases:
        for i in range(1000 if tier == "quick" else 20000):
            c = pcases[rnd.randrange(len(pcases))]
            cases.append(dict(kind="pda", hist=c["hist"], spool=c["spool"], kpool=c["kpool"], operand=rnd.choice(nfa_ops),
                              operand2=rnd.choice(nfa_ops), L=3, family="chains"))
    cases += directed_chains(500 if tier == "quick" else 10000, seed + 3)
    # unsupported operand types on grammars that do / do not generate the empty word, and on PDAs
    for prods in ([["S", []], ["S", ["a", "S", "b"]]], [["S", ["A", "A"]], ["A", []], ["A", ["a"]]], [["S", ["a"]]], []):
        cases.append(dict(kind="cfg", prods=prods, vpool="upper", tpool="ab", operand=ops[0], L=3, family="badtype-directed", badtype=True))
    for i in range(40):
        c = dict(cases[i * 7 % len(cases)])
        c["badtype"] = True
        cases.append(c)
    return cases


CHAIN_PDAS = [
    # (a^n b^n)* by final state
    [["set_start_state", "q0"], ["set_start_stack_symbol", "Z"], ["add_final_state", "q2"],
     ["add_transition", "q0", "a", "Z", "q0", ["X", "Z"]], ["add_transition", "q0", "a", "X", "q0", ["X", "X"]],
     ["add_transition", "q0", "b", "X", "q1", []], ["add_transition", "q1", "b", "X", "q1", []],
     ["add_transition", "q1", "eps", "Z", "q2", ["Z"]], ["add_transition", "q0", "eps", "Z", "q2", ["Z"]],
     ["add_transition", "q2", "a", "Z", "q0", ["X", "Z"]]],
    # every word, one state (the product is then the regular operand itself)
    [["set_start_state", "q0"], ["set_start_stack_symbol", "Z"], ["add_final_state", "q0"],
     ["add_transition", "q0", "a", "Z", "q0", ["Z"]], ["add_transition", "q0", "b", "Z", "q0", ["Z"]]],
    # words with as many b as a before them (Dyck-like), two states
    [["set_start_state", "q0"], ["set_start_stack_symbol", "Z"], ["add_final_state", "q1"],
     ["add_transition", "q0", "a", "Z", "q0", ["X", "Z"]], ["add_transition", "q0", "a", "X", "q0", ["X", "X"]],
     ["add_transition", "q0", "b", "X", "q0", []], ["add_transition", "q0", "eps", "Z", "q1", ["Z"]],
     ["add_transition", "q1", "a", "Z", "q0", ["X", "Z"]]],
]


def directed_chains(n, seed):
    """(pda & r1) & r2 with random nondeterministic operands over the integer states 0..2 (4-6 transitions): subset names
    of r1, of r2 and the product names of the first intersection are then built from the same spellings; words up to 4."""
    rnd = random.Random(seed)
    cases = []
    for i in range(n):
        operands = []
        for _ in range(2):
            nq = rnd.choice((2, 3, 3))
            calls = [["add_start_state", "q0"]]
            if rnd.random() < 0.2:
                calls.append(["add_start_state", "q%d" % rnd.randrange(nq)])
            for _ in range(rnd.randint(3, 6)):
                calls.append(["add_transition", "q%d" % rnd.randrange(nq), rnd.choice("ab"), "q%d" % rnd.randrange(nq)])
            calls.append(["add_final_state", "q%d" % rnd.randrange(nq)])
            if rnd.random() < 0.3:
                calls.append(["add_final_state", "q%d" % rnd.randrange(nq)])
            operands.append(dict(rkind="nfa", calls=calls))
        cases.append(dict(kind="pda", hist=CHAIN_PDAS[i % len(CHAIN_PDAS)], spool="q", kpool="ZX", operand=operands[0],
                          operand2=operands[1], L=4, family="directed-chains"))
    return cases


def make_operand(o):
    """-> (object given to intersection, abstract automaton) ; None if the regex text is not accepted by Regex()"""
    from harness import fa, guard
    from pyformlang.regular_expression import Regex
    if o["rkind"] == "regex":
        text = " ".join(o["toks"])
        r = guard.call(Regex, text)
        if r[0] != "ok":
            return None, None
        r2 = guard.call(Regex(text).to_epsilon_nfa)
        if r2[0] != "ok":
            return None, None
        return r[1], fa.project(r2[1])
    ccalls, _ = fa.concrete(o["calls"], "int", o.get("ypool", "ab"))
    a, _ = fa.build(o["rkind"], ccalls)
    return a, fa.project(a)


def replay(case):
    from harness import pdah, cfgh, guard
    Lw = case["L"]
    words = pdah.words_upto(["a", "b"], Lw)
    tw = [["s:" + x for x in w] for w in words]
    if case.get("badtype"):
        bad = [42, "ab", None, [1, 2]]
        evs = []
        if case["kind"] == "cfg":
            g, _, _ = cfgh.make(case["prods"], case["vpool"], case["tpool"])
            target, op = g, "cfg_intersection_badtype"
        else:
            target, _ = pdah.build(case["hist"], case["spool"], case["kpool"])
            op = "pda_intersection_badtype"
        for b in bad:
            r = guard.call(target.intersection, b)
            ev = {"op": op, "arg": repr(b)}
            if r[0] == "exc":
                ev["exc"] = r[1]
            evs.append(ev)
        return evs
    obj, A = make_operand(case["operand"])
    if obj is None:
        return []
    evs = []
    if case["kind"] == "cfg":
        from harness import fa
        g, start, tagged = cfgh.make(case["prods"], case["vpool"], case["tpool"], nostart=bool(case.get("nostart")))
        G = cfgh.project(g)
        tm = cfgh.TERM_POOLS[case["tpool"]]
        words = pdah.words_upto([tm["a"], tm["b"]], Lw)
        tw = [[fa.tag(x) for x in w] for w in words]
        r = guard.call(g.intersection, obj, timeout=5.0)
        ev = {"op": "cfg_intersection", "G": G, "A": A, "words": tw, "L": Lw, "rkind": case["operand"]["rkind"]}
        if r[0] == "ok":
            ev["R"] = cfgh.project(r[1])
            # the returned grammar is used: its own contains() must give the intersection as well
            racc = []
            for w, t in zip(words, tw):
                rc = guard.call(r[1].contains, list(w), timeout=3.0)
                if rc[0] != "ok":
                    ev["rexc"] = rc[1] if rc[0] == "exc" else "Timeout"
                    break
                if rc[1]:
                    racc.append(t)
            ev["racc"] = racc
        else:
            ev["exc"] = r[1] if r[0] == "exc" else "Timeout"
            ev["msg"] = r[2] if r[0] == "exc" else ""
        evs.append(ev)
        # a second grammar sharing the Variable objects of the first (reverse() keeps them), intersected afterwards:
        # indices left on shared objects by the first call must not leak into the second
        rr = guard.call(g.reverse, timeout=3.0)
        if r[0] == "ok" and rr[0] == "ok":
            g2 = rr[1]
            r2 = guard.call(g2.intersection, obj, timeout=5.0)
            ev2 = {"op": "cfg_intersection", "G": cfgh.project(g2), "A": A, "words": tw, "L": Lw, "rkind": case["operand"]["rkind"], "second": True}
            if r2[0] == "ok":
                ev2["R"] = cfgh.project(r2[1])
            else:
                ev2["exc"] = r2[1] if r2[0] == "exc" else "Timeout"
                ev2["msg"] = r2[2] if r2[0] == "exc" else ""
            evs.append(ev2)
    else:
        p, spec = pdah.build(case["hist"], case["spool"], case["kpool"])
        P = pdah.project(p)
        r = guard.call(p.intersection, obj, timeout=5.0)
        ev = {"op": "pda_intersection", "P": P, "A": A, "words": tw, "L": Lw, "rkind": case["operand"]["rkind"]}
        if r[0] == "ok":
            ev["R"] = pdah.project(r[1])
        else:
            ev["exc"] = r[1] if r[0] == "exc" else "Timeout"
            ev["msg"] = r[2] if r[0] == "exc" else ""
        evs.append(ev)
        # chained: (pda & r1) & r2 must be pda & (r1 & r2); the second operand is the first one reversed
        if r[0] == "ok":
            obj2, A2 = make_operand(case["operand2"]) if case.get("operand2") else (None, None)
            if obj2 is not None:
                P1 = pdah.project(r[1])
                r2 = guard.call(r[1].intersection, obj2, timeout=5.0)
                ev2 = {"op": "pda_intersection", "P": P1, "A": A2, "words": tw, "L": Lw, "rkind": case["operand2"]["rkind"], "chained": True}
                if r2[0] == "ok":
                    ev2["R"] = pdah.project(r2[1])
                else:
                    ev2["exc"] = r2[1] if r2[0] == "exc" else "Timeout"
                    ev2["msg"] = r2[2] if r2[0] == "exc" else ""
                evs.append(ev2)
    return evs


def features(ev, clause):
    from harness import fa
    f = {"rkind": ev.get("rkind", "")}
    if "A" in ev:
        f["operand_deterministic"] = fa.fa_features(ev["A"])["deterministic"]
    return f
