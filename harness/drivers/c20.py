"""C20 - networkx export/import, CFG text export/import and recursive automata reproduce the same machine."""
import random

from harness import core, tlaparse
from harness.drivers import c01, c08, c13, c16

TRACE = "TraceRT"
ASSUMPTIONS = [
    "TLC and its Json module; projections of harness/fa.py, pdah.py, fsth.py, cfgh.py",
    "state / symbol spellings come from a finite pool chosen to stress the textual paths (ints, '0', blanks, quotes, "
    "'starting_0', non-ASCII); label assembling/splitting itself is not modelled in TLA+ (names are opaque strings)",
    "domain guards of the property: JSON-representable values, no epsilon spellings, no ' -> ' or ' / ' inside names",
]
SPELL_STATES = {
    "plain": {"q0": "q0", "q1": "q1", "q2": "q2", "q3": "q3"},
    "int": {"q0": 0, "q1": 1, "q2": 2, "q3": 3},
    "odd": {"q0": "a b", "q1": 'q"uote', "q2": "starting_0", "q3": "0"},
    "mix": {"q0": 0, "q1": "0", "q2": "é", "q3": "a->b"},
    "start": {"q0": "q", "q1": "starting_q", "q2": "starting_", "q3": "INITIAL_STACK_HIDDEN0"},   # look like the export's marker nodes
}
SPELL_SYMS = {"plain": {"a": "a", "b": "b"}, "int": {"a": 0, "b": 1}, "odd": {"a": "a b", "b": 'x"y'}, "mix": {"a": "a/b", "b": ""},
              "start": {"a": "a", "b": "starting_q"}}


def bounds(tier):
    return ("FAGen enfa |Q|<=2 <=3 transitions <=1 removal; PDAGen and FSTGen families of C13/C16 (sampled); four spelling pools; "
            "grammars of CFGGen with lower-case variables / capitalised terminals / epsilon productions; EBNF texts: <=2 lines x <=3 tokens "
            "over {a, A, |, *} and {a, (, ), A, $} (L=3)")


def exhaustive(tier):
    return False


def model_runs(tier):
    return []


def hashseeds(tier):
    return (0, 1)


def ebnf_cfg(tokens, maxlines, maxtoks):
    t = ", ".join('"%s"' % x for x in tokens)
    return ('SPECIFICATION Spec\nCONSTANTS Heads = {"S","A"}\n Tokens = {%s}\n MaxLines = %d\n MaxToks = %d\nCHECK_DEADLOCK FALSE\n'
            % (t, maxlines, maxtoks))


def generate(tier, seed, work, stats):
    cases = []
    pools = ["plain", "int", "odd", "mix", "start"]
    q = tier == "quick"
    # automata
    for kind, k in (("enfa", 2 if q else 1), ("dfa", 1)):
        states = core.tlc_dump("FAGen", c01.gen_cfg(kind, 2, 3, 1, invariants=False), work, stats=stats, name="FAGen-%s-q2-t3-r1" % kind)
        for i, st in enumerate(c01.sample(states, k, seed)):
            calls = tlaparse.to_json(st["hist"])
            if calls:
                cases.append(dict(kind="fa", fkind=kind, calls=calls, pool=pools[i % 5], family="FAGen"))
    # PDAs
    for fam in [(2, ("Z", "X"), ("a",), 2, 2, 1, 12 if q else 1), (1, ("Z", "X"), ("a", "b"), 3, 2, 1, 4 if q else 1)]:
        nq, gam, sym, maxpush, maxt, maxf, k = fam
        states = core.tlc_dump("PDAGen", c13.gen_cfg(nq, gam, sym, maxpush, maxt, maxf, inv=False), work, stats=stats,
                               name="PDAGen-q%d-p%d-t%d" % (nq, maxpush, maxt))
        for i, st in enumerate(c13.sample(states, k, seed)):
            cases.append(dict(kind="pda", hist=tlaparse.to_json(st["hist"]), pool=pools[i % 5], family="PDAGen"))
    # FSTs
    for fam in [(2, ("a",), ("x", "y"), 2, 2, 2, 2, 6 if q else 1)]:
        nq, sym, out, maxout, maxt, maxs, maxf, k = fam
        states = core.tlc_dump("FSTGen", c16.gen_cfg(nq, sym, out, maxout, maxt, maxs, maxf, inv=False), work, stats=stats,
                               name="FSTGen-q%d-t%d" % (nq, maxt))
        for i, st in enumerate(c16.sample(states, k, seed)):
            h = tlaparse.to_json(st["hist"])
            if h:
                cases.append(dict(kind="fst", hist=h, pool=pools[i % 5], family="FSTGen"))
    # grammars: text round trip
    for c in c08.grammar_cases(tier, seed, work, stats, [(2, 2, 3, 2, 4 if q else 1)], [("upper", "ab")]):
        for names in ("plain", "marked", "odd"):
            cases.append(dict(kind="cfg", prods=c["prods"], names=names, family=c["family"]))
    # EBNF
    for toks, ml, mt, k in [(("a", "A", "|", "*"), 2, 3, 6 if q else 1), (("a", "(", ")", "A", "$"), 2, 2, 2 if q else 1)]:
        states = core.tlc_dump("EBNFGen", ebnf_cfg(toks, ml, mt), work, stats=stats, name="EBNFGen-%d-%d-%d" % (len(toks), ml, mt))
        keyed = sorted(tlaparse.to_json(st["lines"]) for st in states)
        for i, lines in enumerate(keyed):
            if lines and all(l[1] for l in lines) and (k <= 1 or (i + seed) % k == 0):
                cases.append(dict(kind="ebnf", lines=lines, family="EBNFGen"))
    return cases


def replay(case):
    from harness import fa, pdah, fsth, cfgh, guard
    k = case["kind"]
    if k == "fa":
        fa.STATE_POOLS["spell"] = [SPELL_STATES[case["pool"]]["q%d" % i] for i in range(4)]
        fa.SYMBOL_POOLS["spell"] = dict(SPELL_SYMS[case["pool"]], c="c")
        ccalls, _ = fa.concrete(case["calls"], "spell", "spell")
        a, _ = fa.build(case["fkind"], ccalls)
        X = fa.project(a)
        r = guard.call(lambda: type(a).from_networkx(a.to_networkx()))
        ev = {"op": "fa_nx_roundtrip", "X": X, "pool": case["pool"]}
        if r[0] == "ok":
            ev["Y"] = fa.project(r[1])
        else:
            ev["exc"], ev["msg"] = (r[1], r[2]) if r[0] == "exc" else ("Timeout", "")
        return [ev]
    if k == "pda":
        pdah.STATE_POOLS["spell"] = SPELL_STATES[case["pool"]]
        # the start stack symbol of the integer pool is 0 (a falsy value)
        pdah.STACK_POOLS["spell"] = {"Z": 0 if case["pool"] == "int" else SPELL_STATES[case["pool"]]["q3"],
                                     "X": SPELL_SYMS[case["pool"]]["b"], "Y": "Y"}
        # every third PDA also declares a state that occurs in no transition (through the constructor)
        extra = ("isolated",) if len(case["hist"]) % 3 == 0 else ()
        p, built = pdah.build(case["hist"], "spell", "spell", ymap=SPELL_SYMS[case["pool"]], extra_states=extra)
        X = pdah.project(p)
        # PDA has no accessor for the start stack symbol: the machine that was built has the one the history set (the
        # projection can only read it through the export under test)
        X["z0"] = built["z0"]
        from pyformlang.pda import PDA
        r = guard.call(lambda: PDA.from_networkx(p.to_networkx()))
        ev = {"op": "pda_nx_roundtrip", "X": X, "pool": case["pool"]}
        if r[0] == "ok":
            ev["Y"] = pdah.project(r[1])
        else:
            ev["exc"], ev["msg"] = (r[1], r[2]) if r[0] == "exc" else ("Timeout", "")
        return [ev]
    if k == "fst":
        fsth.STATE_POOLS["spell"] = SPELL_STATES[case["pool"]]
        hist = [[c[0], c[1], SPELL_SYMS[case["pool"]].get(c[2], c[2]) if c[0] == "add_transition" and c[2] != "eps" else (c[2] if len(c) > 2 else None)]
                + list(c[3:]) if c[0] == "add_transition" else c for c in case["hist"]]
        t, _ = fsth.build(hist, "spell")
        X = fsth.project(t)
        from pyformlang.fst import FST
        r = guard.call(lambda: FST.from_networkx(t.to_networkx()))
        ev = {"op": "fst_nx_roundtrip", "X": X, "pool": case["pool"]}
        if r[0] == "ok":
            ev["Y"] = fsth.project(r[1])
        else:
            ev["exc"], ev["msg"] = (r[1], r[2]) if r[0] == "exc" else ("Timeout", "")
        return [ev]
    if k == "cfg":
        from pyformlang.cfg import CFG, Variable
        if case["names"] == "marked":
            cfgh.VAR_POOLS["marked"] = {"S": "S", "A": "a", "B": "bb", "C": "c"}       # lower-case variables need VAR:
            cfgh.TERM_POOLS["marked"] = {"a": "A", "b": "Bb", "c": "c"}              # capitalised terminals need TER:
            g, start, _ = cfgh.make(case["prods"], "marked", "marked")
        elif case["names"] == "odd":
            cfgh.VAR_POOLS["oddv"] = {"S": "S", "A": "1st", "B": "_rest", "C": "#x"}    # neither upper- nor lower-case first character
            cfgh.TERM_POOLS["oddt"] = {"a": "0", "b": "(", "c": "_"}
            g, start, _ = cfgh.make(case["prods"], "oddv", "oddt")
        else:
            g, start, _ = cfgh.make(case["prods"], "upper", "ab")
        G = cfgh.project(g)
        r = guard.call(lambda: CFG.from_text(g.to_text(), Variable("S")))
        ev = {"op": "text_roundtrip", "G": G, "L": 3, "names": case["names"]}
        if r[0] == "ok":
            ev["R"] = cfgh.project(r[1])
            ev["text"] = g.to_text()
        else:
            ev["exc"], ev["msg"] = (r[1], r[2]) if r[0] == "exc" else ("Timeout", "")
        return [ev]
    # EBNF / regex -> recursive automaton
    from pyformlang.rsa import RecursiveAutomaton
    from pyformlang.regular_expression import Regex
    lines = case["lines"]
    text = "\n".join("%s -> %s" % (h, " ".join(ts)) for h, ts in lines)
    alph = ["s:a", "s:A", "s:S", "s:zz"]
    evs = []
    r = guard.call(lambda: RecursiveAutomaton.from_ebnf(text), timeout=4.0)
    ev = {"op": "rsa_ebnf", "lines": lines, "text": text, "alph": alph, "L": 3, "boxes": []}
    if r[0] == "ok":
        ev["boxes"] = [[str(lbl.value), fa.project(box.dfa)] for lbl, box in r[1].boxes.items()]
    else:
        ev["exc"], ev["msg"] = (r[1], r[2]) if r[0] == "exc" else ("Timeout", "")
    evs.append(ev)
    h0, ts0 = lines[0]
    r = guard.call(lambda: RecursiveAutomaton.from_regex(Regex(" ".join(ts0)), "S"), timeout=4.0)
    ev = {"op": "rsa_regex", "lines": [["S", ts0]], "alph": alph, "L": 3, "boxes": []}
    if r[0] == "ok":
        ev["boxes"] = [[str(lbl.value), fa.project(box.dfa)] for lbl, box in r[1].boxes.items()]
    else:
        ev["exc"], ev["msg"] = (r[1], r[2]) if r[0] == "exc" else ("Timeout", "")
    evs.append(ev)
    return evs


def features(ev, clause):
    f = {"pool": ev.get("pool", ""), "names": ev.get("names", "")}
    if "X" in ev:
        sts = ev["X"].get("states", [])
        f["has_starting_name"] = any(s.startswith("s:starting_") for s in sts)
        f["has_separator"] = any("->" in s or "/" in s for s in sts)
    return f
