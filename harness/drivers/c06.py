"""C06 - to_regex() returns a regular expression accepting exactly the automaton's language."""
import itertools

from harness import core, tlaparse
from harness.drivers import c01

TRACE = "TraceFA"
ASSUMPTIONS = c01.ASSUMPTIONS + [
    "symbols are alphanumeric strings (plain tokens): pools {a,b} and {ab,b}",
    "the returned regex is judged twice: its own epsilon-NFA by exact Equiv, and accepts() on all words up to length 4",
]


def families(tier):
    # (kind, |Q|, syms, MaxT, MaxRem, MaxS, MaxF, sample)
    if tier == "quick":
        return [("enfa", 2, ("a", "b"), 3, 0, 2, 2, 1), ("enfa", 3, ("a", "b"), 3, 0, 2, 2, 12), ("dfa", 3, ("a", "b"), 4, 0, 1, 2, 16)]
    return [("enfa", 2, ("a", "b"), 4, 0, 2, 2, 1), ("enfa", 3, ("a", "b"), 3, 0, 3, 3, 2), ("enfa", 3, ("a",), 4, 0, 2, 3, 2),
            ("dfa", 3, ("a", "b"), 4, 0, 1, 3, 1), ("nfa", 3, ("a", "b"), 4, 0, 2, 2, 8)]


def bounds(tier):
    return "; ".join("%s |Q|<=%d Sigma=%s <=%d transitions rem<=%d starts<=%d finals<=%d sampled 1:%d" % f for f in families(tier)) + \
        "; int pool under label permutations (elimination order follows set order), str pool; words up to length 4"


def exhaustive(tier):
    return all(f[-1] == 1 for f in families(tier))


def model_runs(tier):
    return []


def hashseeds(tier):
    return (0, 1) if tier == "quick" else (0, 1, 2, 3, 4, 5, 6, 7)


def generate(tier, seed, work, stats):
    cases = []
    for kind, nq, syms, maxt, maxrem, maxs, maxf, k in families(tier):
        states = core.tlc_dump("FAGen", c01.gen_cfg(kind, nq, maxt, maxrem, syms=syms, maxs=maxs, maxf=maxf), work,
                               stats=stats, name="FAGen-%s-q%d-s%d-t%d" % (kind, nq, len(syms), maxt))
        states = c01.sample(states, k, seed)
        perms = list(itertools.permutations(range(nq)))
        if tier == "quick":
            perms = [perms[0], perms[-1]]
        for i, st in enumerate(states):
            calls = tlaparse.to_json(st["hist"])
            if not calls:
                continue
            for perm in perms:
                cases.append(dict(kind=kind, calls=calls, spool="int", ypool="ab", perm=list(perm), family="FAGen"))
            if i % 2 == 0:
                cases.append(dict(kind=kind, calls=calls, spool="str", ypool="long", perm=None, family="FAGen"))
    cases += c01.random_cases(1000 if tier == "quick" else 20000, seed + 6, nq=4, nt=6)
    # symbol values that are not strings (no metacharacter, no blank: inside the domain of the property)
    for c in c01.random_cases(300 if tier == "quick" else 3000, seed + 7, nq=3, nt=5):
        cases.append(dict(c, ypool="int", family="random-integer-symbols"))
    return cases


def replay(case):
    from harness import fa, guard
    ccalls, tagged = fa.concrete(case["calls"], case["spool"], case["ypool"], case.get("perm"))
    a, outs = fa.build(case["kind"], ccalls)
    A = fa.project(a)
    evs = [{"op": "build", "kind": case["kind"], "calls": tagged, "outs": outs, "A": A}]
    ymap = fa.SYMBOL_POOLS[case["ypool"]]
    words = fa.words_upto([ymap["a"], ymap["b"]], 4)
    r = guard.call(a.to_regex, timeout=4.0)
    ev = {"op": "to_regex", "A": A, "plain": True, "words": [[fa.tag(x) for x in w] for w in words], "acc": []}
    if r[0] == "ok":
        rx = r[1]
        ev["text"] = str(rx)
        r2 = guard.call(rx.to_epsilon_nfa, timeout=4.0)
        if r2[0] == "ok":
            ev["R"] = fa.project(r2[1])
            acc = []
            for w in words:
                r3 = guard.call(rx.accepts, list(w), timeout=4.0)
                if r3[0] != "ok":
                    ev["exc"] = "accepts:" + (r3[1] if r3[0] == "exc" else "Timeout")
                    break
                if r3[1]:
                    acc.append([fa.tag(x) for x in w])
            ev["acc"] = acc
        else:
            ev["exc"] = "to_epsilon_nfa:" + (r2[1] if r2[0] == "exc" else "Timeout")
    else:
        ev["exc"] = r[1] if r[0] == "exc" else "Timeout"
        ev["msg"] = r[2] if r[0] == "exc" else ""
    evs.append(ev)
    A2 = fa.project(a)
    if A2 != A:
        evs.append({"op": "build", "kind": case["kind"], "calls": tagged, "outs": outs, "A": A2, "after": True})
        return evs
    # phase 2: change the automaton after it was converted, one mutator at a time, and convert again after each
    # (memoised results must not survive any public mutator, including those a subclass overrides)
    sts = sorted(a.states, key=fa.tag)
    if not sts:
        return evs
    trans = sorted(((s, y, t) for s, y, t in a), key=lambda x: (fa.tag(x[0]), fa.tag_sym(x[1]), fa.tag(x[2])))
    muts = [("add_start_state", (sts[-1].value,)), ("add_final_state", (sts[0].value,)), ("remove_start_state", (sts[-1].value,))]
    if trans:
        muts.append(("remove_transition", tuple(x.value if not isinstance(x, fa.Epsilon) else x for x in trans[0])))
    muts.append(("remove_final_state", (sts[0].value,)))
    for ph, (op, args) in enumerate(muts):
        if (len(case["calls"]) + ph) % 2 and ph > 1:
            continue            # a sample of the later mutators keeps the quick tier short
        guard.call(getattr(a, op), *args)
        A3 = fa.project(a)
        r = guard.call(a.to_regex, timeout=4.0)
        ev = {"op": "to_regex", "A": A3, "plain": True, "words": [[fa.tag(x) for x in w] for w in words], "acc": [],
              "phase": 2 + ph, "after": op}
        if r[0] == "ok":
            r2 = guard.call(r[1].to_epsilon_nfa, timeout=4.0)
            if r2[0] == "ok":
                ev["R"] = fa.project(r2[1])
                acc = []
                for w in words:
                    r3 = guard.call(r[1].accepts, list(w), timeout=4.0)
                    if r3[0] != "ok":
                        ev["exc"] = "accepts:" + (r3[1] if r3[0] == "exc" else "Timeout")
                        break
                    if r3[1]:
                        acc.append([fa.tag(x) for x in w])
                ev["acc"] = acc
            else:
                ev["exc"] = "to_epsilon_nfa:" + (r2[1] if r2[0] == "exc" else "Timeout")
        else:
            ev["exc"] = r[1] if r[0] == "exc" else "Timeout"
        evs.append(ev)
    return evs


def features(ev, clause):
    from harness import fa
    f = fa.fa_features(ev["A"])
    f["nonstring_symbols"] = any(not y.startswith("s:") for y in ev["A"]["symbols"])
    f["n_start"] = min(f["n_start"], 2)
    return f
