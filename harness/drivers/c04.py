"""C04 - is_empty / is_deterministic / is_acyclic / get_accepted_words are exact."""
import itertools

from harness import core, tlaparse
from harness.drivers import c01

TRACE = "TraceFA"
ASSUMPTIONS = c01.ASSUMPTIONS + [
    "termination of get_accepted_words(None) on finite languages is decided by a step budget (400 items) and a 2 s alarm",
]


def families(tier):
    # (kind, |Q|, syms, MaxT, MaxRem, sample 1:k)
    if tier == "quick":
        return [("enfa", 2, ("a", "b"), 3, 0, 1), ("enfa", 3, ("a",), 3, 0, 8), ("dfa", 3, ("a", "b"), 3, 0, 2)]
    return [("enfa", 2, ("a", "b"), 4, 1, 1), ("enfa", 3, ("a",), 3, 0, 1), ("enfa", 3, ("a",), 4, 0, 4),
            ("nfa", 3, ("a", "b"), 3, 0, 2), ("dfa", 3, ("a", "b"), 4, 0, 1)]


def bounds(tier):
    return "; ".join("%s |Q|<=%d Sigma=%s <=%d transitions <=%d removals sampled 1:%d" % f for f in families(tier)) + \
        "; n in 0..4 and None; int pool under label permutations (quick: 3, thorough: all), str pool"


def exhaustive(tier):
    return all(f[5] == 1 for f in families(tier))


def model_runs(tier):
    from harness import algo
    return algo.leads_to_final(tier) + algo.acyclic_paths(tier)


def hashseeds(tier):
    return (0, 1) if tier == "quick" else (0, 1, 2, 3, 4, 5, 6, 7)


def generate(tier, seed, work, stats):
    cases = []
    for kind, nq, syms, maxt, maxrem, k in families(tier):
        states = core.tlc_dump("FAGen", c01.gen_cfg(kind, nq, maxt, maxrem, syms=syms), work, stats=stats,
                               name="FAGen-%s-q%d-s%d-t%d" % (kind, nq, len(syms), maxt))
        states = c01.sample(states, k, seed)
        perms = list(itertools.permutations(range(nq)))
        if tier == "quick":
            perms = [perms[0], perms[-1]] + ([perms[len(perms) // 2]] if len(perms) > 2 else [])
        for i, st in enumerate(states):
            calls = tlaparse.to_json(st["hist"])
            if not calls:
                continue
            for perm in perms:
                cases.append(dict(kind=kind, calls=calls, spool="int", ypool="ab", perm=list(perm), family="FAGen"))
            if i % 3 == 0:
                cases.append(dict(kind=kind, calls=calls, spool="str", ypool="ab", perm=None, family="FAGen"))
    cases += c01.random_cases(1500 if tier == "quick" else 20000, seed + 4)
    # P3: the calls the repository's own tests make, re-judged by the trace specification
    cases += [c for c in core.record_tests(["/repo/pyformlang"], work, {"is_empty", "is_deterministic", "is_acyclic"}, stats) if "A" in c["recorded"][0]]
    return cases


def _finite(A):
    """Harness-side finiteness test, used only to decide whether to issue get_accepted_words(None)
    (the verdict is TLC's IsFiniteLang)."""
    succ, pred = {}, {}
    for p, s, q in A["delta"]:
        succ.setdefault(p, set()).add(q)
        pred.setdefault(q, set()).add(p)

    def closure(start, rel):
        seen, todo = set(start), list(start)
        while todo:
            x = todo.pop()
            for y in rel.get(x, ()):
                if y not in seen:
                    seen.add(y)
                    todo.append(y)
        return seen
    useful = closure(A["start"], succ) & closure(A["final"], pred)
    for p, s, q in A["delta"]:
        if s != "eps" and p in useful and q in useful:
            sub = {x: {y for y in succ.get(x, ()) if y in useful} for x in useful}
            if p == q or p in closure([q], sub):
                return False
    return True


def replay(case):
    from harness import fa, guard
    ccalls, tagged = fa.concrete(case["calls"], case["spool"], case["ypool"], case.get("perm"))
    a, outs = fa.build(case["kind"], ccalls)
    A = fa.project(a)
    evs = [{"op": "build", "kind": case["kind"], "calls": tagged, "outs": outs, "A": A}]
    for op in ("is_empty", "is_deterministic", "is_acyclic"):
        evs.append(fa.bool_event(op, A, guard.call(getattr(a, op))))
    ns = [0, 1, 2, 3, 4] + ([-1] if _finite(A) else [])
    for n in ns:
        r = guard.take(lambda: a.get_accepted_words(None if n < 0 else n), 400, timeout=2.0)
        ev = {"op": "get_accepted_words", "A": A, "n": n, "items": [], "status": r[0], "exhausted": False}
        if r[0] == "ok":
            ev["items"] = [[fa.tag_sym(x) for x in w] for w in r[1]]
            ev["exhausted"] = r[2]
        elif r[0] == "exc":
            ev["exc"] = r[1]
        else:
            ev["items"] = [[fa.tag_sym(x) for x in w] for w in r[1]]
        evs.append(ev)
    A2 = fa.project(a)
    if A2 != A:
        evs.append({"op": "build", "kind": case["kind"], "calls": tagged, "outs": outs, "A": A2, "after": True})
        return evs
    # phase 2: mutate the automaton that has just been queried, and query it again (stale caches would show here)
    from pyformlang.finite_automaton import Epsilon
    trs = sorted(((p, y, q) for p, y, q in a), key=lambda t: (not isinstance(t[1], Epsilon), fa.tag(t[0]), fa.tag_sym(t[1]), fa.tag(t[2])))
    extra = []
    if trs:
        p0, y0, q0 = trs[0]                      # an epsilon transition if there is one
        extra.append(("remove_transition", (p0.value, y0 if isinstance(y0, Epsilon) else y0.value, q0.value)))
    sts = sorted(a.states, key=fa.tag)
    if sts:
        extra.append(("add_final_state", (sts[-1].value,)))
    for op, args in extra:
        r = guard.call(getattr(a, op), *args)
        out = ("ok" if op.startswith("add_") else str(r[1])) if r[0] == "ok" else (r[1] if r[0] == "exc" else "timeout")
        targs = [fa.tag(args[0]), fa.tag_sym(args[1]), fa.tag(args[2])] if len(args) == 3 else [fa.tag(args[0])]
        tagged = tagged + [[op] + targs]
        outs = outs + [out]
        A3 = fa.project(a)
        evs.append({"op": "build", "kind": case["kind"], "calls": tagged, "outs": outs, "A": A3, "phase": 2})
        for q in ("is_empty", "is_deterministic", "is_acyclic"):
            evs.append(fa.bool_event(q, A3, guard.call(getattr(a, q)), phase=2))
        r = guard.take(lambda: a.get_accepted_words(3), 400, timeout=2.0)
        ev = {"op": "get_accepted_words", "A": A3, "n": 3, "items": [], "status": r[0], "exhausted": False, "phase": 2}
        if r[0] == "ok":
            ev["items"] = [[fa.tag_sym(x) for x in w] for w in r[1]]
            ev["exhausted"] = r[2]
        elif r[0] == "exc":
            ev["exc"] = r[1]
        evs.append(ev)
    return evs


def features(ev, clause):
    from harness import fa
    return fa.fa_features(ev["A"])
