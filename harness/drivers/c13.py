"""C13 - CFG <-> PDA and PDA acceptance-mode conversions preserve the language."""
import random

from harness import core, tlaparse
from harness.drivers import c08

TRACE = "TracePDA"
ASSUMPTIONS = [
    "TLC and its Json module; harness/pdah.py projection (states, final_states, to_dict(), start stack symbol read through to_networkx())",
    "PDA acceptance is decided exactly (pop-summary least fixpoint, no stack bound) on all words up to length L; grammar languages bounded by L",
    "string input symbols (to_pda turns terminal values into str)",
]


def gen_cfg(nq, gam, sym, maxpush, maxt, maxf, inv=True):
    f = lambda s: "{" + ", ".join('"%s"' % x for x in s) + "}"
    return ("SPECIFICATION Spec\nCONSTANTS NQ = %d\n Gam = %s\n Sym = %s\n MaxPush = %d\n MaxT = %d\n MaxF = %d\n"
            "VIEW View\nCHECK_DEADLOCK FALSE\n%s" % (nq, f(gam), f(sym), maxpush, maxt, maxf,
                                                   ("INVARIANT SemOK\n" if maxpush <= 2 and maxt <= 2 else "INVARIANT SemSound\n") if inv else ""))


def families(tier):
    # (NQ, Gamma, Sigma, MaxPush, MaxT, MaxF, sample)
    if tier == "quick":
        return [(2, ("Z", "X"), ("a",), 2, 2, 1, 6), (1, ("Z", "X"), ("a", "b"), 3, 2, 1, 2), (2, ("Z",), ("a",), 2, 3, 2, 8),
                (2, ("Z",), ("a",), 3, 3, 1, 8)]
    return [(2, ("Z", "X"), ("a",), 2, 2, 2, 1), (1, ("Z", "X"), ("a", "b"), 3, 2, 1, 1), (2, ("Z",), ("a",), 2, 3, 2, 1),
            (2, ("Z", "X"), ("a",), 2, 3, 1, 16), (2, ("Z", "X"), ("a", "b"), 1, 3, 1, 16), (2, ("Z",), ("a",), 3, 3, 1, 1),
            (2, ("Z", "X"), ("a",), 3, 2, 1, 2)]


L = lambda tier: 3 if tier == "quick" else 4


def bounds(tier):
    return "; ".join("|Q|<=%d Gamma=%s Sigma=%s push<=%d <=%d transitions <=%d finals 1:%d" % f for f in families(tier)) + \
        "; words up to length %d over {a,b}; CFG family of C08 for to_pda; name pools incl. the library's reserved fresh names" % L(tier)


def exhaustive(tier):
    return all(f[-1] == 1 for f in families(tier))


def model_runs(tier):
    return []


def hashseeds(tier):
    return (0, 1, 2, 3)


def sample(states, k, seed):
    if k <= 1:
        return states
    keyed = sorted(states, key=lambda st: tlaparse.to_tla(st["pda"]))
    return [st for i, st in enumerate(keyed) if (i + seed) % k == 0]


def random_pdas(n, seed):
    rnd = random.Random(seed)
    out = []
    for _ in range(n):
        hist = [["set_start_state", "q0"], ["set_start_stack_symbol", "Z"]]
        for _ in range(rnd.randint(1, 5)):
            hist.append(["add_transition", rnd.choice(["q0", "q1", "q2"]), rnd.choice(["a", "b", "eps"]),
                         rnd.choice(["Z", "X", "Y"]), rnd.choice(["q0", "q1", "q2"]),
                         [rnd.choice(["Z", "X", "Y"]) for _ in range(rnd.choice([0, 0, 1, 1, 2, 3]))]])
        for _ in range(rnd.randint(0, 2)):
            hist.append(["add_final_state", rnd.choice(["q0", "q1", "q2"])])
        if len(out) % 12 == 7:       # a PDA that was never given a start state / start stack symbol accepts nothing
            hist = [c for c in hist if c[0] != ("set_start_state", "set_start_stack_symbol")[len(out) // 12 % 2]]
        out.append(hist)
    return out


def pda_cases(tier, seed, work, stats, fams):
    cases = []
    pools = [("q", "ZX"), ("q", "ZX"), ("reserved", "reserved"), ("int", "int")]
    for nq, gam, sym, maxpush, maxt, maxf, k in fams:
        states = core.tlc_dump("PDAGen", gen_cfg(nq, gam, sym, maxpush, maxt, maxf), work, stats=stats,
                               name="PDAGen-q%d-g%d-s%d-p%d-t%d" % (nq, len(gam), len(sym), maxpush, maxt))
        for i, st in enumerate(sample(states, k, seed)):
            sp, kp = pools[i % len(pools)]
            cases.append(dict(kind="pda", hist=tlaparse.to_json(st["hist"]), spool=sp, kpool=kp, family="PDAGen"))
            if len(cases) % 5 == 0:
                cases.append(dict(cases[-1], ctor=True, family="PDAGen-constructor-with-transition-function"))
    return cases


def generate(tier, seed, work, stats):
    cases = pda_cases(tier, seed, work, stats, families(tier))
    for hist in random_pdas(600 if tier == "quick" else 10000, seed + 13):
        cases.append(dict(kind="pda", hist=hist, spool="q", kpool="ZX", family="random"))
    gfam = [(2, 2, 3, 2, 8)] if tier == "quick" else [(2, 2, 3, 2, 1), (3, 1, 3, 2, 4)]
    for i, c in enumerate(c08.grammar_cases(tier, seed, work, stats, gfam, [("upper", "ab")])):
        # every third grammar with variables whose values equal terminal values (to_pda keeps them apart with a prefix)
        cases.append(dict(kind="cfg", prods=c["prods"], vpool="clash" if i % 3 == 2 else "upper", tpool="ab", family=c["family"]))
        if i % 11 == 5:     # a grammar object without start symbol: the PDA accepts nothing
            cases.append(dict(kind="cfg", prods=c["prods"], vpool="upper", tpool="ab", family=c["family"] + "-no-start-symbol", nostart=True))
        if i % 5 == 2:      # variables spelled like the stack symbols to_pda makes for terminals; integer terminals
            cases.append(dict(kind="cfg", prods=c["prods"], vpool="termlike", tpool="ab", family=c["family"] + "-termlike-names"))
            cases.append(dict(kind="cfg", prods=c["prods"], vpool="upper", tpool="int", family=c["family"] + "-integer-terminals"))
        if i % 4 == 1:      # integer variables next to terminals that are the same digits as strings (PDA.to_cfg numbers its variables)
            cases.append(dict(kind="cfg", prods=c["prods"], vpool="int0", tpool="digits", family=c["family"] + "-digit-names"))
    for c in cases:
        c["L"] = L(tier)
    # P3: the calls the repository's own tests make, re-judged by the trace specification
    cases += core.record_tests(["/repo/pyformlang"], work, {"to_final_state", "to_empty_stack", "to_cfg", "to_pda"}, stats)
    return cases


def replay(case):
    from harness import pdah, cfgh, guard
    Lw = case["L"]
    words = pdah.words_upto(["a", "b"], Lw)
    tw = [["s:" + x for x in w] for w in words]
    evs = []
    if case["kind"] == "pda":
        p, spec = pdah.build(case["hist"], case["spool"], case["kpool"])
        if case.get("ctor"):
            # the same machine handed to the constructor as a ready-made transition function (plus start state, start
            # stack symbol and final states): it has the states and symbols its transitions use
            from pyformlang.pda import PDA
            from pyformlang.pda.transition_function import TransitionFunction
            tf = TransitionFunction()
            for key, outs in p.to_dict().items():
                for s_to, stack_to in outs:
                    tf.add_transition(key[0], key[1], key[2], s_to, list(stack_to))
            sm, km = pdah.STATE_POOLS[case["spool"]], pdah.STACK_POOLS[case["kpool"]]
            s0 = [sm[c[1]] for c in case["hist"] if c[0] == "set_start_state"]
            z0 = [km[c[1]] for c in case["hist"] if c[0] == "set_start_stack_symbol"]
            p = PDA(transition_function=tf, start_state=s0[-1] if s0 else None, start_stack_symbol=z0[-1] if z0 else None,
                    final_states=set(p.final_states))
        P = pdah.project(p)
        evs.append({"op": "build", "P": P, "spec": spec})
        for op in ("to_final_state", "to_empty_stack"):
            r = guard.call(getattr(p, op), timeout=3.0)
            ev = {"op": op, "P": P, "words": tw, "L": Lw}
            if r[0] == "ok":
                ev["R"] = pdah.project(r[1])
            else:
                ev["exc"] = r[1] if r[0] == "exc" else "Timeout"
                ev["msg"] = r[2] if r[0] == "exc" else ""
            evs.append(ev)
        r = guard.call(p.to_cfg, timeout=5.0)
        ev = {"op": "to_cfg", "P": P, "words": tw, "L": Lw}
        if r[0] == "ok":
            ev["G"] = cfgh.project(r[1])
        else:
            ev["exc"] = r[1] if r[0] == "exc" else "Timeout"
            ev["msg"] = r[2] if r[0] == "exc" else ""
        evs.append(ev)
        if pdah.project(p) != P:
            evs.append({"op": "build", "P": pdah.project(p), "spec": spec, "after": True})
    else:
        g, start, tagged = cfgh.make(case["prods"], case["vpool"], case["tpool"], nostart=bool(case.get("nostart")))
        G = cfgh.project(g)
        tm = cfgh.TERM_POOLS[case["tpool"]]
        words = pdah.words_upto([tm["a"], tm["b"]], Lw)
        tw = [[cfgh.tt(x)[2:] for x in w] for w in words]
        r = guard.call(g.to_pda, timeout=3.0)
        ev = {"op": "to_pda", "G": G, "words": tw, "L": Lw}
        if r[0] == "ok":
            ev["R"] = pdah.project(r[1])
        else:
            ev["exc"] = r[1] if r[0] == "exc" else "Timeout"
            ev["msg"] = r[2] if r[0] == "exc" else ""
        evs.append(ev)
        # round trip CFG -> PDA -> CFG
        if r[0] == "ok":
            r2 = guard.call(r[1].to_cfg, timeout=5.0)
            ev2 = {"op": "to_cfg", "P": ev["R"], "words": tw, "L": Lw}
            if r2[0] == "ok":
                ev2["G"] = cfgh.project(r2[1])
            else:
                ev2["exc"] = r2[1] if r2[0] == "exc" else "Timeout"
            evs.append(ev2)
    return evs


def features(ev, clause):
    f = {}
    if "P" in ev:
        f["n_finals"] = len(ev["P"]["finals"])
        f["n_states"] = len(ev["P"]["states"])
    return f
