"""C01 - acceptance; to_deterministic / remove_epsilon_transitions / minimize / copy keep the language."""
import itertools
import random

from harness import algo, core, tlaparse

TRACE = "TraceFA"
ASSUMPTIONS = [
    "TLC and its Json module; harness/fa.py projection (public attributes and iteration only)",
    "state/symbol values drawn from finite pools (ints, strings incl. merged-name look-alikes, mixed, tuples)",
    "exhaustive only within the stated constants; random family beyond them is sampled",
]


def gen_cfg(kind, nq, maxt, maxrem, invariants=True, syms=("a", "b"), maxs=3, maxf=3):
    s = ('SPECIFICATION Spec\nCONSTANTS Kind = "%s"\n NQ = %d\n Sym = {%s}\n MaxT = %d\n MaxRem = %d\n'
         ' MaxS = %d\n MaxF = %d\nVIEW View\nCHECK_DEADLOCK FALSE\n'
         % (kind, nq, ", ".join('"%s"' % x for x in syms), maxt, maxrem, maxs, maxf))
    if invariants:
        s += "INVARIANT TypeOK\nINVARIANT DetOK\nINVARIANT RevOK\nINVARIANT LangOK\nINVARIANT EmptyOK\n"
    return s


def families(tier):
    # (kind, |Q|, MaxT, MaxRem, sample 1:k)
    if tier == "quick":
        return [("enfa", 2, 3, 1, 1), ("nfa", 2, 3, 0, 1), ("dfa", 2, 3, 1, 1)]
    return [("enfa", 3, 3, 1, 6), ("nfa", 3, 3, 0, 2), ("dfa", 3, 4, 1, 2), ("enfa", 2, 4, 1, 1)]


def bounds(tier):
    return "; ".join("%s: |Q|<=%d, <=%d transitions, <=%d removals, Sigma={a,b}(+eps), replayed 1:%d" % f for f in families(tier)) + \
        "; words over Sigma+{c} up to length 3; name pools int (all label permutations), str, mixed, tuple"


def exhaustive(tier):
    return all(f[-1] == 1 for f in families(tier))


def model_runs(tier):
    # the generator runs below carry the M1 invariants (TypeOK, DetOK, RevOK, LangOK, EmptyOK)
    return algo.subset_construction(tier)


def hashseeds(tier):
    return (0, 1) if tier == "quick" else (0, 1, 2, 3, 4, 5, 6, 7)


def pools_for(nq, tier):
    out = [("int", "ab", list(p)) for p in itertools.permutations(range(nq))]
    out += [("str", "ab", None), ("mixed", "int", None)]
    if tier != "quick":
        out += [("tuple", "long", None), ("str", "ab", list(reversed(range(nq))))]
    return out


def random_cases(n, seed, nq=5, nt=7, eps_all=False):
    rnd = random.Random(seed)
    cases = []
    for _ in range(n):
        kind = rnd.choice(["enfa", "enfa", "nfa", "dfa"])
        labels = ["a", "b"] + (["eps"] if kind == "enfa" or eps_all else [])
        calls = []
        for _ in range(rnd.randint(1, nt)):
            calls.append(["add_transition", "q%d" % rnd.randrange(nq), rnd.choice(labels), "q%d" % rnd.randrange(nq)])
        for _ in range(rnd.randint(0, 2)):
            calls.append(["add_start_state", "q%d" % rnd.randrange(nq)])
        for _ in range(rnd.randint(0, 2)):
            calls.append(["add_final_state", "q%d" % rnd.randrange(nq)])
        rnd.shuffle(calls)
        cases.append(dict(kind=kind, calls=calls, spool="int5", ypool="ab", perm=None, family="random"))
    return cases


def sample(states, k, seed):
    """Deterministic 1:k sample of a TLC dump (the dump order itself depends on worker scheduling)."""
    if k <= 1:
        return states
    keyed = sorted(states, key=lambda st: tlaparse.to_tla(st["aut"]))
    return [st for i, st in enumerate(keyed) if (i + seed) % k == 0]


def suffix_cases(n, seed):
    """NFAs in which the subset {a, b} is reachable while other states are already spelled "a;b" and "a;b#k": the name
    of the subset collides, and so may the replacement name (pool "suffix": q1 = a, q2 = b, q3 = "a;b", others "a;b#k")."""
    rnd = random.Random(seed)
    cases = []
    for _ in range(n):
        start = rnd.choice(["q0", "q4", "q5", "q6", "q3"])
        calls = [["add_start_state", start], ["add_transition", start, "a", "q3"], ["add_transition", start, "b", "q1"],
                 ["add_transition", start, "b", "q2"]]
        for _ in range(rnd.randint(1, 5)):
            calls.append(["add_transition", "q%d" % rnd.randrange(7), rnd.choice("ab"), "q%d" % rnd.randrange(7)])
        for _ in range(rnd.randint(1, 3)):
            calls.append(["add_final_state", "q%d" % rnd.randrange(7)])
        if rnd.random() < 0.5:
            rnd.shuffle(calls)
        cases.append(dict(kind="nfa", calls=calls, spool="suffix", ypool="ab", perm=None, family="directed-suffix-names"))
    return cases


def with_ctor(cases):
    """every 5th case is also run on an object built by the class constructor"""
    out = []
    for i, c in enumerate(cases):
        out.append(c)
        if i % 5 == 2 and "calls" in c:
            out.append(dict(c, ctor=True, family=c.get("family", "") + "+constructor"))
        if i % 5 == 4 and "calls" in c:
            out.append(dict(c, ctor="bare", family=c.get("family", "") + "+constructor-without-states-and-symbols"))
    return out


def generate(tier, seed, work, stats):
    cases = []
    for kind, nq, maxt, maxrem, k in families(tier):
        states = core.tlc_dump("FAGen", gen_cfg(kind, nq, maxt, maxrem), work, stats=stats,
                               name="FAGen-%s-q%d-t%d" % (kind, nq, maxt))
        states = sample(states, k, seed) if k > 1 else states
        pools = pools_for(nq, tier)
        for i, st in enumerate(states):
            calls = tlaparse.to_json(st["hist"])
            if not calls:
                continue
            if tier == "quick":
                ps = pools
            else:   # thorough: rotate pools over the (much larger) family, all perms for every 4th
                ps = pools if i % 4 == 0 else [pools[i % len(pools)]]
            for sp, yp, perm in ps:
                cases.append(dict(kind=kind, calls=calls, spool=sp, ypool=yp, perm=perm, family="FAGen"))
    cases += random_cases(2000 if tier == "quick" else 20000, seed)
    # P3: the calls the repository's own tests make, re-judged by the trace specification
    cases += [c for c in core.record_tests(["/repo/pyformlang"], work, {"accepts", "to_deterministic", "remove_epsilon_transitions", "minimize", "copy"}, stats) if "A" in c["recorded"][0]]
    from harness.drivers import c02
    for c in c02.random_dfas(2500 if tier == "quick" else 30000, seed + 11):     # partition refinement needs >= 5 states
        cases.append(dict(kind="dfa", calls=c["callsA"], spool="int5", ypool="ab", perm=None, family="random-dfa"))
    # operands whose names are what the library's own collision handling produces, and symbols with colliding hashes
    for c in random_cases(1500 if tier == "quick" else 15000, seed + 21, nq=6, nt=9):
        cases.append(dict(c, spool="suffix", family="random-suffix-names"))
    cases += suffix_cases(1500 if tier == "quick" else 15000, seed + 23)
    # epsilon written as the string "epsilon" / the glyph: free moves for an epsilon-NFA, refused by NFA and DFA
    for i, c in enumerate(random_cases(900 if tier == "quick" else 9000, seed + 24, nq=4, nt=6, eps_all=True)):
        cases.append(dict(c, ypool=("ab-epsilon-word", "ab-epsilon-glyph", "ab")[i % 3], family="random-epsilon-spellings"))
    for c in random_cases(500 if tier == "quick" else 5000, seed + 22, nq=4, nt=7):
        cases.append(dict(c, ypool="neg", family="random-negative-symbols"))
    return with_ctor(cases)


def misc_event(a, A, syms):
    """The small queries: get_number_transitions, len, eclose(state), a(state, symbol), is_final_state, to_dict."""
    from harness import fa
    from pyformlang.finite_automaton import Epsilon
    ev = {"op": "misc", "A": A}
    try:
        ev["ntrans"] = a.get_number_transitions()
        ev["len"] = len(a)
        states = sorted(a.states, key=lambda s: fa.tag(s))
        ev["eclose"] = [[fa.tag(s), sorted(fa.tag(x) for x in a.eclose(s))] for s in states] if hasattr(a, "eclose") else []
        ev["calls"] = [[fa.tag(s), fa.tag_sym(y), sorted(fa.tag(x) for x in a(s, y))] for s in states for y in list(syms) + [Epsilon()]]
        ev["isfinal"] = [[fa.tag(s), bool(a.is_final_state(s))] for s in states]
        td = []
        for p, d in a.to_dict().items():
            for y, qs in d.items():
                for q in (qs if isinstance(qs, (set, list, frozenset)) else [qs]):
                    td.append([fa.tag(p), fa.tag_sym(y), fa.tag(q)])
        ev["todict"] = td
    except Exception as e:  # pylint: disable=broad-except
        ev["exc"] = type(e).__name__
        ev["msg"] = str(e)[:200]
    return ev


def replay(case):
    from harness import fa, guard
    ccalls, tagged = fa.concrete(case["calls"], case["spool"], case["ypool"], case.get("perm"))
    a, outs = fa.build(case["kind"], ccalls)
    A = fa.project(a)
    evs = [{"op": "build", "kind": case["kind"], "calls": tagged, "outs": outs, "A": A}]
    if case.get("ctor"):
        # the same automaton built by the constructor (transition function handed over as a whole): it must be the
        # same abstract value and answer every query below in the same way
        bare = case.get("ctor") == "bare"
        if bare:
            # without the `states` / `input_symbols` arguments only states and symbols that occur in a transition or as
            # start / final state can be known to the object: the case is compared on such automata only
            used = set(a.start_states) | set(a.final_states) | {s for s, _, _ in a} | {t for _, _, t in a}
            if used != set(a.states) or {y for _, y, _ in a if fa.tag_sym(y) != "eps"} != set(a.symbols):
                bare = False
        r = fa.rebuild_by_constructor(a, bare=bare)
        if r[0] != "ok":
            evs.append({"op": "accepts", "A": A, "exc": "constructor:" + (r[1] if r[0] == "exc" else "Timeout"), "words": [], "acc": []})
            return evs
        a = r[1]
        evs.append({"op": "build", "kind": case["kind"], "calls": tagged, "outs": outs, "A": fa.project(a), "ctor": True})
    ymap = fa.SYMBOL_POOLS[case["ypool"]]
    words = fa.words_upto([ymap["a"], ymap["b"], ymap["c"]], 3)
    acc = []
    exc = None
    for w in words:
        r = guard.call(a.accepts, list(w))
        if r[0] == "ok":
            if r[1]:
                acc.append([fa.tag(x) for x in w])
        else:
            exc = r[1] if r[0] == "exc" else "Timeout"
            break
    ev = {"op": "accepts", "A": A, "words": [[fa.tag(x) for x in w] for w in words], "acc": acc}
    if exc:
        ev = {"op": "accepts", "A": A, "exc": exc, "words": [], "acc": []}
    evs.append(ev)
    evs.append(fa.bool_event("is_deterministic", A, guard.call(a.is_deterministic)))
    evs.append(misc_event(a, A, [ymap["a"], ymap["b"]]))
    for op in ("to_deterministic", "remove_epsilon_transitions", "minimize", "copy"):
        r = guard.call(getattr(a, op))
        evs.append(fa.result_event(op, A, r))
        if r[0] == "ok" and op == "to_deterministic":
            # conversions of conversions stay in the contract
            r2 = guard.call(r[1].minimize)
            evs.append(fa.result_event("minimize", fa.project(r[1]), r2, via="to_deterministic"))
    # the operand must not have been changed by any of the calls above (frame condition of C01's conversions)
    meta = fa.name_meta(a)
    for ev in evs:
        ev["meta"] = meta
    A2 = fa.project(a)
    if A2 != A:
        evs.append({"op": "build", "kind": case["kind"], "calls": tagged, "outs": outs, "A": A2, "after": True})
    return evs


def features(ev, clause):
    from harness import fa
    f = fa.fa_features(ev["A"])
    f["subset_name_collision"] = fa.subset_name_collision(ev["meta"]["strs"]) if "meta" in ev else False
    return f
