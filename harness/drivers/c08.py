"""C08 - cfg.contains(w) / `w in cfg` / generate_epsilon are exactly derivability from the start symbol."""
import random

from harness import core, tlaparse

TRACE = "TraceCFG"
ASSUMPTIONS = [
    "TLC and its Json module; harness/cfgh.py projection (public properties variables/terminals/productions/start_symbol)",
    "language comparison bounded by word length L (4 quick, 5 thorough); grammars within the stated constants",
    "variable/terminal values from finite pools (plain, look-alikes of the library's fresh names, ints)",
]


def gen_cfg(nv, nt, maxp, maxb, startfirst=True, invariants=("NullOK",)):
    v = ", ".join('"%s"' % x for x in ["S", "A", "B", "C"][:nv])
    t = ", ".join('"%s"' % x for x in ["a", "b", "c"][:nt])
    s = ("SPECIFICATION Spec\nCONSTANTS V = {%s}\n T = {%s}\n MaxProds = %d\n MaxBody = %d\n StartFirst = %s\n"
         "CHECK_DEADLOCK FALSE\n" % (v, t, maxp, maxb, "TRUE" if startfirst else "FALSE"))
    for inv in invariants:
        s += "INVARIANT %s\n" % inv
    return s


def families(tier):
    # (|V|, |T|, MaxProds, MaxBody, sample 1:k)
    if tier == "quick":
        return [(2, 2, 3, 2, 1), (3, 1, 3, 2, 2), (2, 1, 2, 3, 1)]
    return [(2, 2, 3, 2, 1), (3, 1, 3, 2, 1), (2, 2, 2, 3, 1), (3, 2, 3, 2, 8), (2, 2, 4, 2, 16)]


def L(tier):
    return 4 if tier == "quick" else 5


def bounds(tier):
    return "; ".join("|V|<=%d |T|<=%d <=%d productions bodies<=%d sampled 1:%d" % f for f in families(tier)) + \
        "; words up to length %d over {a,b} plus words with an unknown terminal; pools upper/fresh/int" % L(tier)


def exhaustive(tier):
    return all(f[-1] == 1 for f in families(tier))


def model_runs(tier):
    return [dict(name="CFGGen-M1", module="CFGGen", timeout=900,
                 cfg=gen_cfg(2, 1, 3, 2, invariants=("DerivOK", "EmptyOK", "NullOK", "FiniteOK", "TrimOK")))]


def hashseeds(tier):
    return (0, 1, 2, 3) if tier == "quick" else (0, 1, 2, 3, 4, 5, 6, 7)


def sample(states, k, seed):
    if k <= 1:
        return states
    keyed = sorted(states, key=lambda st: tlaparse.to_tla(st["prods"]))
    return [st for i, st in enumerate(keyed) if (i + seed) % k == 0]


DIRECTED = [
    [],                                                        # start symbol without productions
    [["A", ["a"]]],                                            # start symbol without productions, other variable has one
    [["S", ["S"]]], [["S", ["S"]], ["S", ["a"]]],              # self unit
    [["S", ["A"]], ["A", ["B"]], ["B", ["S"]], ["B", ["b"]]],  # unit cycle
    [["S", ["A", "B", "A"]], ["A", []], ["A", ["a"]], ["B", ["b"]], ["B", []]],
    [["S", ["a", "S", "b", "S"]], ["S", []]],
    [["S", ["S", "S"]], ["S", ["a"]], ["S", []]],
    [["S", ["A", "A", "A", "A"]], ["A", ["a"]], ["A", []]],
    [["S", ["a", "A", "b"]], ["A", ["a", "A", "b"]], ["A", ["B"]], ["B", ["C"]], ["C", []]],
    [["S", ["A", "a", "b"]], ["S", ["B", "a", "b"]], ["A", ["a"]], ["B", ["b"]]],   # shared suffix
]


def random_grammars(n, seed, maxp=6, maxb=4):
    rnd = random.Random(seed)
    out = []
    for _ in range(n):
        nv = rnd.randint(1, 4)
        V = ["S", "A", "B", "C"][:nv]
        prods = []
        for _ in range(rnd.randint(1, maxp)):
            h = rnd.choice(V) if prods else "S"
            b = [rnd.choice(V + ["a", "b"]) for _ in range(rnd.choice([0, 1, 1, 2, 2, 2, 3, maxb]))]
            if [h, b] not in prods:
                prods.append([h, b])
        out.append(prods)
    return out


def grammar_cases(tier, seed, work, stats, fams, pools):
    cases = []
    for nv, nt, maxp, maxb, k in fams:
        states = core.tlc_dump("CFGGen", gen_cfg(nv, nt, maxp, maxb), work, stats=stats,
                               name="CFGGen-v%d-t%d-p%d-b%d" % (nv, nt, maxp, maxb), keep=(k, seed) if k >= 8 else None)
        if k < 8:
            states = sample(states, k, seed)
        else:
            states.sort(key=lambda st: tlaparse.to_tla(st["prods"]))
        for i, st in enumerate(states):
            prods = sorted(tlaparse.to_json(st["prods"]))
            vp, tp = pools[i % len(pools)]
            cases.append(dict(prods=prods, vpool=vp, tpool=tp, family="CFGGen", declare=(i % 7 == 3)))
            if i % 9 == 4:      # productions handed over as a list with repetitions / as a one-shot iterable
                cases.append(dict(prods=prods, vpool=vp, tpool=tp, family="CFGGen-containers", container=("dup", "gen")[i % 2]))
    for prods in DIRECTED:
        for vp, tp in pools:
            cases.append(dict(prods=prods, vpool=vp, tpool=tp, family="directed"))
            cases.append(dict(prods=prods, vpool=vp, tpool=tp, family="directed", declare=True))
    return cases


POOLS = [("upper", "ab"), ("upper", "ab"), ("fresh", "ab"), ("int", "int"), ("upper", "ab"), ("alg", "ab"),
         ("clash", "ab")]      # variables with the values of the terminals (Variable("a") is not Terminal("a"))


def generate(tier, seed, work, stats):
    cases = grammar_cases(tier, seed, work, stats, families(tier), POOLS)
    for prods in random_grammars(1500 if tier == "quick" else 20000, seed + 8):
        cases.append(dict(prods=prods, vpool="upper", tpool="ab", family="random"))
    # helper-name look-alikes for both kinds of helper variables of the normal form (terminal C, long bodies)
    for prods in random_grammars(600 if tier == "quick" else 8000, seed + 80, maxp=5, maxb=4):
        cases.append(dict(prods=prods, vpool="freshC", tpool="Cterm", family="random-helper-names"))
    for c in cases:
        c["L"] = L(tier)
    cases += [c for c in core.record_tests(["/repo/pyformlang"], work, {"contains", "generate_epsilon"}, stats) if "G" in c["recorded"][0]]
    return cases


def replay(case):
    from harness import cfgh, guard
    g, start, tagged = cfgh.make(case["prods"], case["vpool"], case["tpool"], declare=case.get("declare", False), container=case.get("container"))
    G = cfgh.project(g)
    evs = [{"op": "new", "G": G, "start": start, "prods": tagged}]
    Lw = case["L"]
    tm = cfgh.TERM_POOLS[case["tpool"]]
    words = cfgh.words_upto(case["tpool"], Lw)
    words += [(tm["c"],), (tm["a"], tm["c"]), (tm["c"], tm["b"], tm["a"])]
    # generate_epsilon first on a fresh object; history effects belong to C19
    evs.append(cfgh.bool_event("generate_epsilon", G, guard.call(g.generate_epsilon)))
    for op, fn in (("contains", lambda w: g.contains(w)), ("in", lambda w: w in g)):
        acc, exc = [], None
        for w in words:
            r = guard.call(fn, list(w), timeout=4.0)
            if r[0] != "ok":
                exc = (r[1] if r[0] == "exc" else "Timeout") + " on " + repr(w)
                break
            if r[1]:
                acc.append(cfgh.tagw(w))
        ev = {"op": op, "G": G, "L": Lw, "words": [cfgh.tagw(w) for w in words], "acc": acc}
        if exc:
            ev["exc"] = exc
        evs.append(ev)
    G2 = cfgh.project(g)
    if G2 != G:
        evs.append({"op": "new", "G": G2, "start": start, "prods": tagged, "after": True})
    return evs


def features(ev, clause):
    from harness import cfgh
    return cfgh.cfg_features(ev["G"])
