"""C03 - get_intersection / get_complement / get_difference / reverse / union / concatenate / kleene_star
(and & - ~ unary -) compute the set-theoretic result."""
from harness import core, tlaparse
from harness.drivers import c01, c02

TRACE = "TraceFA"
ASSUMPTIONS = c02.ASSUMPTIONS + [
    "union/concatenate/kleene_star go through to_regex: replayed with string symbols only (plain tokens)",
]


def families(tier):
    if tier == "quick":
        return [("enfa", "enfa", 2, ("a", "b"), ("a", "b"), 1, 1, 0, 2, 1, "indep", 8),
                ("enfa", "nfa", 2, ("a",), ("a", "b"), 2, 1, 0, 1, 1, "indep", 4),
                ("nfa", "enfa", 2, ("a", "b"), ("a",), 2, 3, 1, 1, 1, "derive", 1)]
    return [("enfa", "enfa", 2, ("a", "b"), ("a", "b"), 1, 1, 0, 2, 2, "indep", 2),
            ("enfa", "enfa", 2, ("a", "b"), ("a", "b"), 2, 3, 1, 1, 1, "derive", 4),
            ("enfa", "nfa", 2, ("a",), ("a", "b"), 2, 2, 0, 1, 1, "indep", 2),
            ("dfa", "enfa", 2, ("a", "b"), ("b",), 2, 2, 0, 1, 1, "indep", 2),
            ("nfa", "nfa", 2, ("a", "b"), ("a", "b"), 2, 3, 1, 1, 1, "derive", 2)]


def bounds(tier):
    return "; ".join("A:%s B:%s |Q|<=%d SigA=%s SigB=%s tA<=%d tB<=%d extra calls<=%d starts<=%d finals<=%d %s 1:%d" % f
                     for f in families(tier)) + "; int and str pools (names collide across operands)"


def exhaustive(tier):
    return all(f[-1] == 1 for f in families(tier))


def model_runs(tier):
    from harness import algo
    return algo.names(tier, "pair") + algo.product_intersection(tier) + [dict(name="FAGen2-algebra", module="FAGen2", timeout=900,
                 cfg=c02.gen2_cfg("enfa", "enfa", 2, ("a", "b"), ("a", "b"), 1, 1, 0, 1, 1, "indep",
                                  invariants=("EquivOK", "AlgebraOK")))]


def hashseeds(tier):
    return (0, 1) if tier == "quick" else (0, 1, 2, 3, 4, 5, 6, 7)


def generate(tier, seed, work, stats):
    cases = c02.pair_cases(tier, seed, work, stats, families(tier))
    cases += c02.random_pairs(1000 if tier == "quick" else 30000, seed + 3)
    for c in c02.random_pairs(1500 if tier == "quick" else 30000, seed + 33):       # names that contain the library's separators
        cases.append(dict(c, spool="merged", family="random-merged-names"))
    for c in c02.random_pairs(1500 if tier == "quick" else 30000, seed + 34, nq=5, nt=6):       # pair names that can be split in two ways
        cases.append(dict(c, spool="joined", family="random-joined-names"))
    for c in c02.random_pairs(300 if tier == "quick" else 3000, seed + 36):       # symbols that are not strings
        cases.append(dict(c, ypool="int", family="random-integer-symbols"))
    for c in c02.random_pairs(500 if tier == "quick" else 10000, seed + 35):       # 0 and "0" are different states
        cases.append(dict(c, spool="mixed", family="random-mixed-names"))
    # P3: the calls the repository's own tests make, re-judged by the trace specification
    cases += [c for c in core.record_tests(["/repo/pyformlang"], work, {"get_intersection", "get_complement", "get_difference", "reverse", "union", "concatenate", "kleene_star"}, stats) if "A" in c["recorded"][0]]
    return cases


BIN = [("get_intersection", lambda a, b: a.get_intersection(b)), ("and", lambda a, b: a & b),
       ("get_difference", lambda a, b: a.get_difference(b)), ("sub", lambda a, b: a - b),
       ("union", lambda a, b: a.union(b)), ("concatenate", lambda a, b: a.concatenate(b))]
UN = [("get_complement", lambda a: a.get_complement()), ("neg", lambda a: -a),
      ("reverse", lambda a: a.reverse()), ("invert", lambda a: ~a), ("kleene_star", lambda a: a.kleene_star())]


def replay(case):
    from harness import fa, guard
    a, b, evs = c02.build_pair(case)
    A, B = fa.project(a), fa.project(b)
    meta = {"strsA": fa.name_meta(a)["strs"], "strsB": fa.name_meta(b)["strs"]}
    for op, fn in BIN:
        evs.append(fa.result_event(op, A, guard.call(fn, a, b), B=B))
    # same object as both operands (aliasing), one direction swapped
    evs.append(fa.result_event("get_difference", A, guard.call(a.get_difference, a), B=A, same=True))
    evs.append(fa.result_event("get_intersection", B, guard.call(b.get_intersection, a), B=A))
    for op, fn in UN:
        evs.append(fa.result_event(op, A, guard.call(fn, a)))
    for op, fn in UN[:1] + UN[2:3]:
        evs.append(fa.result_event(op, B, guard.call(fn, b)))
    A0, B0 = A, B
    if fa.project(a) == A and fa.project(b) == B and case.get("family", "").startswith("random"):
        # phase 2: after the operations above, change start/final marking of both operands through the public mutators
        # and combine them again (nothing computed for the old value may survive in the operands)
        sa = sorted(a.states, key=fa.tag)
        sb = sorted(b.states, key=fa.tag)
        if sa and sb:
            guard.call(a.add_final_state, sa[-1].value)
            guard.call(b.add_start_state, sb[-1].value)
            if len(sa) > 1:
                guard.call(a.remove_final_state, sa[0].value)
            A, B = fa.project(a), fa.project(b)
            for op, fn in BIN[4:] + BIN[:1]:
                evs.append(fa.result_event(op, A, guard.call(fn, a, b), B=B, phase=2))
            for op, fn in UN[:1] + UN[4:]:
                evs.append(fa.result_event(op, A, guard.call(fn, a), phase=2))
                evs.append(fa.result_event(op, B, guard.call(fn, b), phase=2))
    for ev in evs:
        ev["meta"] = meta
    if fa.project(a) != A or fa.project(b) != B:
        evs.append({"op": "build", "kind": case["kindA"], "calls": [], "outs": [], "A": fa.project(a), "after": True})
    return evs


def features(ev, clause):
    from harness import fa
    f = {}
    fa_ = fa.fa_features(ev["A"])
    f["A.deterministic"] = fa_["deterministic"]
    f["A.n_start"] = min(fa_["n_start"], 2)
    if "B" in ev:
        fb = fa.fa_features(ev["B"])
        f["B.deterministic"] = fb["deterministic"]
        f["B.n_start"] = min(fb["n_start"], 2)
    syms = list(ev["A"]["symbols"]) + list(ev.get("B", {}).get("symbols", []))
    # union / concatenate / kleene_star are computed on regular expressions (to_regex): see F-C06-2
    f["rational_on_nonstring_symbols"] = ev.get("op") in ("union", "or", "concatenate", "add", "kleene_star") and \
        any(not y.startswith("s:") for y in syms)
    return f
