"""C02 - is_equivalent_to / == decide language equality exactly; minimize is reduced and canonical."""
import itertools
import random

from harness import core, tlaparse
from harness.drivers import c01

TRACE = "TraceFA"
ASSUMPTIONS = c01.ASSUMPTIONS + [
    "pairs: object B is built independently or derived from A's history by <=2|3 further public calls over a pool "
    "with one extra state (sinks, dead/unreachable states, extra symbols)",
]


def gen2_cfg(ka, kb, nq, syma, symb, mta, mtb, maxb, maxs, maxf, mode, invariants=("EquivOK",)):
    f = lambda s: "{" + ", ".join('"%s"' % x for x in s) + "}"
    s = ('SPECIFICATION Spec\nCONSTANTS KindA = "%s"\n KindB = "%s"\n NQ = %d\n SymA = %s\n SymB = %s\n MaxTA = %d\n'
         ' MaxTB = %d\n MaxB = %d\n MaxS = %d\n MaxF = %d\n Mode = "%s"\nVIEW View\nCHECK_DEADLOCK FALSE\n'
         % (ka, kb, nq, f(syma), f(symb), mta, mtb, maxb, maxs, maxf, mode))
    for inv in invariants:
        s += "INVARIANT %s\n" % inv
    return s


def families(tier):
    # (kindA, kindB, NQ, SymA, SymB, MaxTA, MaxTB, MaxB, MaxS, MaxF, mode, sample 1:k)
    if tier == "quick":
        return [("dfa", "dfa", 2, ("a",), ("a", "b"), 2, 4, 2, 1, 2, "derive", 6),
                ("enfa", "enfa", 2, ("a", "b"), ("a", "b"), 1, 1, 0, 2, 1, "indep", 6),
                ("nfa", "dfa", 2, ("a",), ("a",), 2, 2, 0, 1, 1, "indep", 3)]
    return [("dfa", "dfa", 2, ("a",), ("a", "b"), 2, 4, 2, 1, 2, "derive", 1),
            ("dfa", "dfa", 2, ("a", "b"), ("a", "b"), 2, 4, 2, 1, 1, "derive", 2),
            ("enfa", "enfa", 2, ("a", "b"), ("a", "b"), 2, 3, 2, 1, 1, "derive", 4),
            ("enfa", "enfa", 2, ("a", "b"), ("a", "b"), 1, 1, 0, 2, 2, "indep", 1),
            ("nfa", "dfa", 2, ("a",), ("a", "b"), 2, 2, 0, 1, 1, "indep", 1),
            ("enfa", "nfa", 2, ("a",), ("a",), 2, 2, 0, 1, 1, "indep", 1)]


def bounds(tier):
    return "; ".join("A:%s B:%s |Q|<=%d SigA=%s SigB=%s tA<=%d tB<=%d extra calls<=%d starts<=%d finals<=%d %s 1:%d" % f
                     for f in families(tier)) + "; int pool (identity and reversed labels on B), str pool"


def exhaustive(tier):
    return all(f[-1] == 1 for f in families(tier))


def model_runs(tier):
    from harness import algo
    return algo.hopcroft(tier) + algo.minimize_equiv(tier) + algo.names(tier, "group")


def hashseeds(tier):
    return (0, 1) if tier == "quick" else (0, 1, 2, 3, 4, 5, 6, 7)


def sample2(states, k, seed):
    states = [st for st in states if st["phase"] == "B"]
    if k <= 1:
        return states
    keyed = sorted(states, key=lambda st: tlaparse.to_tla((st["a"], st["b"])))
    return [st for i, st in enumerate(keyed) if (i + seed) % k == 0]


def random_pairs(n, seed, nq=4, nt=5):
    rnd = random.Random(seed)
    singles = c01.random_cases(2 * n, seed + 17, nq=nq, nt=nt)
    cases = []
    for i in range(n):
        x, y = singles[2 * i], singles[2 * i + 1]
        if rnd.random() < 0.4:      # derived: same history plus a few more calls
            extra = c01.random_cases(1, rnd.randrange(1 << 30), nq=5, nt=2)[0]["calls"]
            y = dict(x, calls=x["calls"] + [c for c in extra if c[2:3] != ["eps"] or x["kind"] == "enfa"])
        cases.append(dict(kindA=x["kind"], kindB=y["kind"], callsA=x["calls"], callsB=y["calls"], spool="int5",
                          ypool="ab", permA=None, permB=None, family="random"))
    return cases


def random_dfas(n, seed):
    """Dense random DFAs with 5-8 states over {a,b} (refinement bugs of the partition need that size), paired with a
    perturbed copy: same calls plus one changed final state or transition."""
    rnd = random.Random(seed)
    cases = []
    for _ in range(n):
        nq = rnd.randint(5, 8)
        calls = [["add_start_state", "q0"]]
        for i in range(nq):
            for a in ("a", "b"):
                if rnd.random() < 0.9:
                    calls.append(["add_transition", "q%d" % i, a, "q%d" % rnd.randrange(nq)])
        for i in range(nq):
            if rnd.random() < 0.4:
                calls.append(["add_final_state", "q%d" % i])
        other = list(calls)
        if rnd.random() < 0.5:
            other.append(["add_final_state", "q%d" % rnd.randrange(nq)])
        else:
            other = [c for c in other if c[0] != "add_final_state" or rnd.random() < 0.8]
        cases.append(dict(kindA="dfa", kindB="dfa", callsA=calls, callsB=other, spool="int5", ypool="ab", permA=None,
                          permB=None, family="random-dfa"))
    return cases


MERGED_POOL = ["s", "a", "b", "a;b", "a;b#1", "a;b#2", "b;a", "a;b;a"]      # spellings the library itself produces
JOINED_POOL = ["a", "a; b", "b; a", "a;b", "b;a", "b", "a;a", "b;b"]     # any two of them joined by a separator can be read in two ways
TWIN_POOL = ["s", "a", "b", "a;b", "a;b#1", "a;b#2", "a;b#3", "a;b#4", "a;b#5", "a;b#6", "b;a", "a;b;a"]


def twin_dfas(n, seed):
    """Random DFAs with 5-7 states in which q1 and q2 are twins (same successors, same marking), so that minimize() has to
    name the class {a, b}, while other states are already spelled like that name and like the suffixed names the library
    hands out on a collision ("a;b", "a;b#k")."""
    rnd = random.Random(seed)
    cases = []
    for _ in range(n):
        nq = rnd.randint(5, 7)
        perm = [0, 1, 2, 3] + rnd.sample(range(4, len(TWIN_POOL)), nq - 4)
        if rnd.random() < 0.3:
            perm[1], perm[2] = perm[2], perm[1]
        calls = [["add_start_state", "q0"], ["add_transition", "q0", "a", "q1"], ["add_transition", "q0", "b", "q2"]]
        for i in [1] + list(range(3, nq)):
            for a in ("a", "b"):
                if rnd.random() < 0.85:
                    t = rnd.randrange(nq)
                    calls.append(["add_transition", "q%d" % i, a, "q%d" % t])
                    if i == 1:
                        calls.append(["add_transition", "q2", a, "q%d" % t])
        for i in [1] + list(range(3, nq)):
            if rnd.random() < 0.4:
                calls.append(["add_final_state", "q%d" % i])
                if i == 1:
                    calls.append(["add_final_state", "q2"])
        other = list(calls) + [["add_final_state", "q%d" % rnd.randrange(nq)]]
        cases.append(dict(kindA="dfa", kindB="dfa", callsA=calls, callsB=other, spool="twin", ypool="ab", permA=perm,
                          permB=perm, family="twin-dfa-merged-names"))
    return cases


def use_merged_pool():
    from harness import fa
    fa.STATE_POOLS["merged"] = MERGED_POOL
    fa.STATE_POOLS["twin"] = TWIN_POOL
    fa.STATE_POOLS["joined"] = JOINED_POOL


def pair_cases(tier, seed, work, stats, fams):
    cases = []
    for fam in fams:
        ka, kb, nq, sa, sb, mta, mtb, maxb, maxs, maxf, mode, k = fam
        states = core.tlc_dump("FAGen2", gen2_cfg(ka, kb, nq, sa, sb, mta, mtb, maxb, maxs, maxf, mode), work,
                               stats=stats, name="FAGen2-%s-%s-%s-q%d-t%d-%d" % (ka, kb, mode, nq, mta, mtb))
        states = sample2(states, k, seed)
        nb = nq + (1 if mode == "derive" else 0)
        for i, st in enumerate(states):
            ca, cb = tlaparse.to_json(st["ha"]), tlaparse.to_json(st["hb"])
            base = dict(kindA=ka, kindB=kb, callsA=ca, callsB=cb, family="FAGen2-" + mode)
            cases.append(dict(base, spool="int", ypool="ab", permA=None, permB=None))
            if i % 2 == 0:
                cases.append(dict(base, spool="int", ypool="ab", permA=None, permB=list(reversed(range(nb)))))
            if i % 3 == 0:
                cases.append(dict(base, spool="str", ypool="ab", permA=None, permB=None))
    return cases


def generate(tier, seed, work, stats):
    cases = pair_cases(tier, seed, work, stats, families(tier))
    cases += random_pairs(1500 if tier == "quick" else 30000, seed)
    # P3: the calls the repository's own tests make, re-judged by the trace specification
    cases += [c for c in core.record_tests(["/repo/pyformlang"], work, {"is_equivalent_to", "minimize"}, stats) if "A" in c["recorded"][0]]
    cases += random_dfas(1500 if tier == "quick" else 30000, seed + 5)
    for c in random_dfas(1200 if tier == "quick" else 20000, seed + 7):
        cases.append(dict(c, spool="merged", family="random-dfa-merged-names"))
    cases += twin_dfas(1500 if tier == "quick" else 20000, seed + 8)
    # the same DFA built twice with the calls in a different order, over symbols whose hashes collide (-1, -2)
    rnd = random.Random(seed + 9)
    for c in random_dfas(800 if tier == "quick" else 10000, seed + 9):
        other = list(c["callsA"][1:])
        rnd.shuffle(other)
        cases.append(dict(c, callsB=[c["callsA"][0]] + other, ypool="neg", family="random-dfa-reordered-negative-symbols"))
    for i, c in enumerate(random_pairs(600 if tier == "quick" else 6000, seed + 10)):
        cases.append(dict(c, ypool="mixedsym", family="random-mixed-type-symbols"))
    # step-level conformance of the Hopcroft refinement (TraceHopcroft): spec-generated DFAs and dense random ones
    states = core.tlc_dump("FAGen", c01.gen_cfg("dfa", 3, 4, 0, invariants=False, maxs=1, maxf=2), work, stats=stats, name="FAGen-dfa-q3-t4-steps")
    for i, st in enumerate(c01.sample(states, 8 if tier == "quick" else 1, seed)):
        calls = tlaparse.to_json(st["hist"])
        if calls:
            cases.append(dict(kind="hopcroft", calls=calls, spool="int", family="FAGen-steps"))
    for c in random_dfas(1000 if tier == "quick" else 10000, seed + 6):
        cases.append(dict(kind="hopcroft", calls=c["callsA"], spool="int5", family="random-dfa-steps"))
    return cases


def build_pair(case):
    from harness import fa
    use_merged_pool()
    ca, ta = fa.concrete(case["callsA"], case["spool"], case["ypool"], case.get("permA"))
    cb, tb = fa.concrete(case["callsB"], case["spool"], case["ypool"], case.get("permB"))
    a, oa = fa.build(case["kindA"], ca)
    b, ob = fa.build(case["kindB"], cb)
    evs = [{"op": "build", "kind": case["kindA"], "calls": ta, "outs": oa, "A": fa.project(a)},
           {"op": "build", "kind": case["kindB"], "calls": tb, "outs": ob, "A": fa.project(b)}]
    return a, b, evs


def replay(case):
    from harness import fa, guard
    if case.get("kind") == "hopcroft":
        from harness import hopstep
        ccalls, _ = fa.concrete(case["calls"], case["spool"], "ab")
        d, _ = fa.build("dfa", ccalls)
        r = guard.call(hopstep.record, d, timeout=5.0)
        return [r[1]] if r[0] == "ok" and r[1] is not None else []
    a, b, evs = build_pair(case)
    A, B = fa.project(a), fa.project(b)
    meta = {"strs": dict(fa.name_meta(a)["strs"], **fa.name_meta(b)["strs"]),
            "strsA": fa.name_meta(a)["strs"], "strsB": fa.name_meta(b)["strs"]}
    evs.append(fa.bool_event("is_equivalent_to", A, guard.call(a.is_equivalent_to, b), B=B))
    evs.append(fa.bool_event("is_equivalent_to", B, guard.call(b.is_equivalent_to, a), B=A))
    evs.append(fa.bool_event("eq", A, guard.call(lambda: a == b), B=B))
    ra, rb = guard.call(a.minimize), guard.call(b.minimize)
    evs.append(fa.result_event("minimize", A, ra))
    evs.append(fa.result_event("minimize", B, rb))
    ev = {"op": "canonical", "A": A, "B": B}
    if ra[0] == "ok" and rb[0] == "ok":
        ev["MA"], ev["MB"] = fa.project(ra[1]), fa.project(rb[1])
    else:
        ev["exc"] = "minimize failed"
    evs.append(ev)
    if fa.project(a) == A and fa.project(b) == B and case.get("family", "").startswith("random"):
        # phase 2: both operands were compared and minimised above; change each through a public mutator (the DFA class
        # overrides some of them) and compare again: nothing computed for the old value may be used
        sa, sb = sorted(a.states, key=fa.tag), sorted(b.states, key=fa.tag)
        if sa and sb:
            guard.call(a.add_start_state, sa[-1].value)
            guard.call(b.add_final_state, sb[0].value)
            A2, B2 = fa.project(a), fa.project(b)
            evs.append(fa.bool_event("is_equivalent_to", A2, guard.call(a.is_equivalent_to, b), B=B2, phase=2))
            evs.append(fa.bool_event("eq", B2, guard.call(lambda: b == a), B=A2, phase=2))
            evs.append(fa.result_event("minimize", A2, guard.call(a.minimize), phase=2))
            guard.call(a.remove_start_state, sa[-1].value)
            A3 = fa.project(a)
            evs.append(fa.bool_event("is_equivalent_to", A3, guard.call(a.is_equivalent_to, b), B=B2, phase=3))
            A, B = A3, B2
    for ev in evs:
        ev["meta"] = meta
    if fa.project(a) != A or fa.project(b) != B:
        evs.append({"op": "build", "kind": case["kindA"], "calls": [], "outs": [], "A": fa.project(a), "after": True})
    return evs


def owner(ev, clause):
    # language preservation of minimize is C01's clause; everything else here belongs to C02
    return "C01" if clause in ("minimize.lang", "minimize.det", "Build.state", "Build.outcomes") and False else "C02"


def features(ev, clause):
    from harness import fa
    if ev.get("op") == "hopcroft_steps":
        return {}
    meta = ev.get("meta", {})
    f = {"subset_name_collision": fa.subset_name_collision(meta.get("strsA", {})) or
         fa.subset_name_collision(meta.get("strsB", {}))}
    fa_ = fa.fa_features(ev["A"])
    f["A.deterministic"] = fa_["deterministic"]
    return f
