"""Finite-automaton helpers shared by the drivers: name pools, building through the public API,
projection to the abstract value of DESIGN 2.1, word sets."""
import itertools

from pyformlang.finite_automaton import (EpsilonNFA, NondeterministicFiniteAutomaton,
                                         DeterministicFiniteAutomaton, Epsilon, State, Symbol)

from . import guard

CLASSES = {"enfa": EpsilonNFA, "nfa": NondeterministicFiniteAutomaton, "dfa": DeterministicFiniteAutomaton}

# concrete state-name pools for the abstract generator names q0, q1, q2, q3
STATE_POOLS = {
    "int": [0, 1, 2, 3],
    "int5": [0, 1, 2, 3, 4, 5, 6, 7],
    "str": ["a", "b", "a;b", "b;a"],          # look like the library's merged names
    "mixed": [0, "0", "TrashNode", "0;TrashNode", 1, "1"],
    "tuple": [(0, 1), (1, 0), "(0, 1)", ((0, 1), (1, 0))],
    # what the merged-name scheme hands out on a collision, used as operand names (start state first)
    "suffix": ["a;b#2", "a", "b", "a;b", "a;b#1", "a;b#3", "a;b#4", "b;a"],
}
SYMBOL_POOLS = {
    "ab": {"a": "a", "b": "b", "c": "c"},
    "int": {"a": 0, "b": 1, "c": 2},
    "long": {"a": "ab", "b": "b", "c": "a"},
    "neg": {"a": -1, "b": -2, "c": -3},          # hash(-1) == hash(-2) in CPython
    "ntlike": {"a": "a", "b": "A", "c": "B"},      # letters spelled like the non-terminals of an indexed grammar
    "mixedsym": {"a": 1, "b": "a", "c": "1"},    # values of different types in one alphabet (not mutually orderable)
    # the documented string spellings of the epsilon symbol instead of the Epsilon object
    "ab-epsilon-word": {"a": "a", "b": "b", "c": "c", "eps": "epsilon"},
    "ab-epsilon-glyph": {"a": "a", "b": "b", "c": "c", "eps": "\u025b"},
}


def tag(v):
    """One string per distinct Python value; equal values -> equal tags."""
    if isinstance(v, (State, Symbol)):
        v = v.value
    if isinstance(v, bool):
        return "i:%d" % int(v)
    if isinstance(v, int):
        return "i:%d" % v
    if isinstance(v, float) and v == int(v):
        return "i:%d" % int(v)
    if isinstance(v, str):
        return "s:" + v
    if isinstance(v, tuple):
        return "t:(" + ",".join(tag(x) for x in v) + ")"
    if isinstance(v, frozenset):
        return "f:{" + ",".join(sorted(tag(x) for x in v)) + "}"
    return "o:" + type(v).__name__ + ":" + repr(v)


def tag_sym(s):
    if isinstance(s, Epsilon) or s == Epsilon() or (isinstance(s, str) and s in ("epsilon", "\u025b")):
        return "eps"         # the Epsilon object and its two documented string spellings
    return tag(s)


def project(a):
    """EpsilonNFA / NFA / DFA -> abstract automaton (public attributes and iteration only)."""
    delta = []
    for p, s, q in a:
        delta.append([tag(p), tag_sym(s), tag(q)])
    return {"states": sorted(tag(s) for s in a.states),
            "start": sorted(tag(s) for s in a.start_states),
            "final": sorted(tag(s) for s in a.final_states),
            "symbols": sorted(tag_sym(s) for s in a.symbols),
            "delta": sorted(delta)}


def name_meta(a):
    """str() of every state value, for the features that describe name collisions."""
    return {"strs": {tag(s): str(s.value) for s in a.states}}


def subset_name_collision(strs):
    """True iff two distinct non-empty subsets of the states get the same name from the library's
    merged-state naming scheme (';'.join(sorted(str(value))))."""
    names = sorted(strs.values())
    if len(names) > 10:
        return len(set(names)) != len(names)
    seen = set()
    n = len(names)
    for mask in range(1, 1 << n):
        nm = ";".join(sorted(names[i] for i in range(n) if mask >> i & 1))
        if nm in seen:
            return True
        seen.add(nm)
    return False


def kind_of(a):
    if isinstance(a, DeterministicFiniteAutomaton):
        return "dfa"
    if isinstance(a, NondeterministicFiniteAutomaton):
        return "nfa"
    return "enfa"


def concrete(calls, spool, ypool, perm=None):
    """Abstract generator calls (q0.., a, b, eps) -> concrete Python arguments and tagged calls."""
    smap = {"q%d" % i: v for i, v in enumerate(STATE_POOLS[spool])}
    if perm:
        names = ["q%d" % i for i in range(len(perm))]
        smap.update({names[i]: STATE_POOLS[spool][perm[i]] for i in range(len(perm))})
    ymap = dict(SYMBOL_POOLS[ypool])
    out, tagged = [], []
    for c in calls:
        op = c[0]
        if op in ("add_transition", "remove_transition"):
            sym = ymap.get("eps", Epsilon()) if c[2] == "eps" else ymap[c[2]]
            args = (smap[c[1]], sym, smap[c[3]])
            targs = [tag(args[0]), tag_sym(sym), tag(args[2])]
        elif op == "add_symbol":
            args = (ymap[c[1]],)
            targs = [tag(args[0])]
        else:
            args = (smap[c[1]],)
            targs = [tag(args[0])]
        out.append((op, args))
        tagged.append([op] + targs)
    return out, tagged


def build(kind, ccalls):
    """Execute the calls on a fresh object of the class; returns (object, outcomes)."""
    a = CLASSES[kind]()
    outs = []
    for op, args in ccalls:
        r = guard.call(getattr(a, op), *args)
        if r[0] == "ok":
            outs.append("ok" if op.startswith("add_") else str(r[1]))
        elif r[0] == "exc":
            outs.append(r[1])
        else:
            outs.append("timeout")
    return a, outs


def rebuild_by_constructor(a, bare=False):
    """The same automaton handed to the class constructor as a whole (states, alphabet, transition function, start,
    finals): the second public way of building one.  Returns a guard.call result."""
    from pyformlang.finite_automaton import TransitionFunction, NondeterministicTransitionFunction
    kind = kind_of(a)

    def make():
        tf = TransitionFunction() if kind == "dfa" else NondeterministicTransitionFunction()
        for s_from, symb, s_to in a:
            tf.add_transition(s_from, symb, s_to)
        if kind == "dfa":
            start = next(iter(a.start_states), None)
        else:
            start = set(a.start_states)
        if bare:        # the optional arguments `states` and `input_symbols` left out: what the transition function
            # mentions belongs to the automaton all the same (states that occur nowhere else cannot be expressed)
            return CLASSES[kind](transition_function=tf, start_state=start, final_states=set(a.final_states))
        return CLASSES[kind](states=set(a.states), input_symbols=set(a.symbols), transition_function=tf, start_state=start,
                             final_states=set(a.final_states))
    return guard.call(make)


def from_abstract(kind, A, untag):
    """Build an automaton of class `kind` directly from an abstract value (used by replays of
    recorded events); untag maps tags back to Python values."""
    a = CLASSES[kind]()
    for p, s, q in A["delta"]:
        a.add_transition(untag(p), Epsilon() if s == "eps" else untag(s), untag(q))
    for s in A["start"]:
        a.add_start_state(untag(s))
    for s in A["final"]:
        a.add_final_state(untag(s))
    return a


def words_upto(symbols, n):
    out = []
    for k in range(n + 1):
        out.extend(itertools.product(symbols, repeat=k))
    return out


def result_event(op, A, r, **extra):
    """Event for a call returning an automaton (r = guard.call result)."""
    ev = {"op": op, "A": A}
    ev.update(extra)
    if r[0] == "ok":
        ev["R"] = project(r[1])
        ev["rkind"] = kind_of(r[1])
    elif r[0] == "exc":
        ev["exc"] = r[1]
        ev["msg"] = r[2]
    else:
        ev["exc"] = "Timeout"
    return ev


def bool_event(op, A, r, **extra):
    ev = {"op": op, "A": A}
    ev.update(extra)
    if r[0] == "ok":
        ev["res"] = bool(r[1])
    elif r[0] == "exc":
        ev["exc"] = r[1]
        ev["msg"] = r[2]
    else:
        ev["exc"] = "Timeout"
    return ev


def fa_features(A):
    """Features of an abstract automaton used by known-finding `when` predicates."""
    delta = A["delta"]
    succ = {}
    for p, s, q in delta:
        succ.setdefault((p, s), set()).add(q)
    nondet = any(len(v) > 1 for v in succ.values())
    eps_move = any(s == "eps" and p != q for p, s, q in delta)
    return {"deterministic": (not nondet) and (not eps_move) and len(A["start"]) <= 1,
            "n_start": len(A["start"]), "has_eps": any(s == "eps" for _, s, _ in delta),
            "no_final": len(A["final"]) == 0}
