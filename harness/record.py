"""P3: recorder over the repository's own tests (pytest plugin: -p harness.record).

When PYFORMLANG_VERIF=1 and VERIF_RECORD_FILE are set, the public methods listed below are wrapped (from here, no
change to /repo): every outermost call made by the tests is logged as one NDJSON event in the same format the
drivers use (operands projected before the call, result after it), so that the trace specifications re-judge
what the tests merely exercise.  Only small objects are logged (the oracles are exact but not fast)."""
import functools
import json
import os

_DEPTH = [0]
_OUT = [None]
MAX_STATES, MAX_TRANS, MAX_PRODS, MAX_BODY = 9, 24, 12, 4


def _emit(ev):
    if _OUT[0] is None:
        _OUT[0] = open(os.environ["VERIF_RECORD_FILE"], "a")
    _OUT[0].write(json.dumps(ev) + "\n")
    _OUT[0].flush()


def _small_fa(a):
    try:
        return len(a.states) <= MAX_STATES and a.get_number_transitions() <= MAX_TRANS
    except Exception:  # pylint: disable=broad-except
        return False


def _small_cfg(g):
    try:
        ps = list(g.productions)
        return len(ps) <= MAX_PRODS and all(len(p.body) <= MAX_BODY for p in ps) and len(g.terminals) <= 3
    except Exception:  # pylint: disable=broad-except
        return False


def _wrap(cls, name, before, after):
    orig = getattr(cls, name, None)
    if orig is None or getattr(orig, "_verif_wrapped", False):
        return
    if name not in cls.__dict__:
        return          # only where the method is defined (subclasses inherit the wrapper)

    @functools.wraps(orig)
    def wrapper(self, *args, **kw):
        if _DEPTH[0] > 0:
            return orig(self, *args, **kw)
        ctx = None
        try:
            ctx = before(self, args)
        except Exception:  # pylint: disable=broad-except
            ctx = None
        _DEPTH[0] += 1
        try:
            res = orig(self, *args, **kw)
        except Exception as e:
            _DEPTH[0] -= 1
            if ctx is not None:
                ev = dict(ctx)
                ev["exc"] = type(e).__name__
                ev["raised_in_test"] = True
                _emit(ev)
            raise
        _DEPTH[0] -= 1
        if ctx is not None:
            try:
                _DEPTH[0] += 1
                ev = after(ctx, res)
            except Exception:  # pylint: disable=broad-except
                ev = None
            finally:
                _DEPTH[0] -= 1
            if ev is not None:
                _emit(ev)
        return res
    wrapper._verif_wrapped = True
    setattr(cls, name, wrapper)


def install():
    from harness import fa, cfgh
    from pyformlang.finite_automaton import EpsilonNFA, NondeterministicFiniteAutomaton, DeterministicFiniteAutomaton, \
        FiniteAutomaton, Epsilon
    from pyformlang.cfg import CFG

    def fa_ctx(op):
        def before(self, args):
            if not _small_fa(self):
                return None
            return {"op": op, "A": fa.project(self), "kind": fa.kind_of(self)}
        return before

    def fa_conv(ctx, res):
        if not _small_fa(res):
            return None
        ctx["R"] = fa.project(res)
        return ctx

    def fa_bool(ctx, res):
        ctx["res"] = bool(res)
        return ctx

    def accepts_before(self, args):
        if not _small_fa(self):
            return None
        word = list(args[0])
        if any(isinstance(x, Epsilon) or x in ("epsilon", "ɛ") for x in word) or len(word) > 8:
            return None
        return {"op": "accepts", "A": fa.project(self), "words": [[fa.tag_sym(x) for x in word]]}

    def accepts_after(ctx, res):
        ctx["acc"] = ctx["words"] if res else []
        return ctx

    def fa_bin_ctx(op):
        def before(self, args):
            other = args[0]
            if not isinstance(other, FiniteAutomaton) or not _small_fa(self) or not _small_fa(other):
                return None
            return {"op": op, "A": fa.project(self), "B": fa.project(other)}
        return before

    for cls in (FiniteAutomaton, EpsilonNFA, NondeterministicFiniteAutomaton, DeterministicFiniteAutomaton):
        _wrap(cls, "accepts", accepts_before, accepts_after)
        for op in ("is_deterministic", "is_empty", "is_acyclic"):
            _wrap(cls, op, fa_ctx(op), fa_bool)
        for op in ("to_deterministic", "remove_epsilon_transitions", "minimize", "copy", "get_complement", "reverse", "kleene_star"):
            _wrap(cls, op, fa_ctx(op), fa_conv)
        for op in ("get_intersection", "get_difference", "union", "concatenate"):
            _wrap(cls, op, fa_bin_ctx(op), fa_conv)
        _wrap(cls, "is_equivalent_to", fa_bin_ctx("is_equivalent_to"), fa_bool)

    # ---- CFG
    def cfg_ctx(op, **extra):
        def before(self, args):
            if not _small_cfg(self):
                return None
            d = {"op": op, "G": cfgh.project(self)}
            d.update(extra)
            return d
        return before

    def cfg_conv(ctx, res):
        if not _small_cfg(res):
            return None
        ctx["R"] = cfgh.project(res)
        if ctx["op"] == "to_normal_form":
            ctx["isnf"] = bool(res.is_normal_form())
        return ctx

    def cfg_bool(ctx, res):
        ctx["res"] = bool(res)
        return ctx

    def cfg_set(ctx, res):
        ctx["res"] = sorted(cfgh.sym_tag(x) for x in res)
        return ctx

    def contains_before(self, args):
        if not _small_cfg(self):
            return None
        from pyformlang.cfg import Epsilon as CEps
        word = [x for x in args[0]]
        if len(word) > 6 or any(isinstance(x, CEps) for x in word):
            return None
        return {"op": "contains", "G": cfgh.project(self), "L": len(word), "words": [[cfgh.tt(x) for x in word]]}

    def contains_after(ctx, res):
        ctx["acc"] = ctx["words"] if res else []
        return ctx

    def cfg_bin_ctx(op):
        def before(self, args):
            other = args[0]
            if not isinstance(other, CFG) or not _small_cfg(self) or not _small_cfg(other):
                return None
            return {"op": op, "G": cfgh.project(self), "H": cfgh.project(other), "L": 4}
        return before

    _wrap(CFG, "contains", contains_before, contains_after)
    for op in ("generate_epsilon", "is_empty", "is_finite"):
        _wrap(CFG, op, cfg_ctx(op), cfg_bool)
    for op in ("get_generating_symbols", "get_nullable_symbols", "get_reachable_symbols"):
        _wrap(CFG, op, cfg_ctx(op), cfg_set)
    for op in ("remove_useless_symbols", "remove_epsilon", "eliminate_unit_productions", "to_normal_form"):
        _wrap(CFG, op, cfg_ctx(op, L=4), cfg_conv)
    for op in ("get_closure", "get_positive_closure", "reverse"):
        _wrap(CFG, op, cfg_ctx(op, L=4), cfg_conv)
    for op in ("union", "concatenate"):
        _wrap(CFG, op, cfg_bin_ctx(op), cfg_conv)

    # ---- PDA conversions and CFG.to_pda (C13): words over the object's own input alphabet
    from harness import pdah, fsth
    from pyformlang.pda import PDA

    def _small_pda(p):
        try:
            return len(p.states) <= 4 and p.get_number_transitions() <= 8 and len(p.input_symbols) <= 2 \
                and len(p.stack_symbols) <= 4 and p.start_state is not None
        except Exception:  # pylint: disable=broad-except
            return False

    def _words(symbols, n):
        syms = sorted(symbols, key=fa.tag)
        return [[fa.tag(x) for x in w] for w in pdah.words_upto(syms, n)]

    def pda_ctx(op):
        def before(self, args):
            if not _small_pda(self):
                return None
            return {"op": op, "P": pdah.project(self), "words": _words([x.value for x in self.input_symbols if x.value != "epsilon"], 3), "L": 3}
        return before

    def pda_conv(ctx, res):
        if ctx["op"] == "to_cfg":
            if len(res.productions) > 60:
                return None
            ctx["G"] = cfgh.project(res)
        else:
            if not len(res.states) <= 6:
                return None
            ctx["R"] = pdah.project(res)
        return ctx

    for op in ("to_final_state", "to_empty_stack", "to_cfg"):
        _wrap(PDA, op, pda_ctx(op), pda_conv)

    def to_pda_before(self, args):
        if not _small_cfg(self) or len(self.terminals) > 2:
            return None
        return {"op": "to_pda", "G": cfgh.project(self), "words": _words([x.value for x in self.terminals], 3), "L": 3}

    def to_pda_after(ctx, res):
        ctx["R"] = pdah.project(res)
        return ctx

    _wrap(CFG, "to_pda", to_pda_before, to_pda_after)

    # ---- LL(1) sets and verdict (C14)
    from pyformlang.cfg.llone_parser import LLOneParser

    def ll_ctx(op):
        def before(self, args):
            g = self._cfg          # pylint: disable=protected-access
            if not _small_cfg(g):
                return None
            return {"op": op, "G": cfgh.project(g)}
        return before

    def ll_sets(ctx, res):
        out = []
        for k, vals in res.items():
            kt = cfgh.sym_tag(k)
            if kt.startswith("V:"):
                out.append([kt, sorted("$" if v == "$" else cfgh.sym_tag(v) for v in vals)])
        ctx["res"] = sorted(out)
        return ctx

    _wrap(LLOneParser, "get_first_set", ll_ctx("get_first_set"), ll_sets)
    _wrap(LLOneParser, "get_follow_set", ll_ctx("get_follow_set"), ll_sets)
    _wrap(LLOneParser, "is_llone_parsable", ll_ctx("is_llone_parsable"), cfg_bool)

    # ---- FST.translate (C16): translate() is lazy, so the same call is made again here, under the watchdog, on the
    # receiver as it is at that point of the test; the test's own generator is left untouched
    from pyformlang.fst import FST

    def translate_before(self, args):
        try:
            word = list(args[0])
            if len(self.states) > 4 or self.get_number_transitions() > 8 or len(word) > 4:
                return None
            _DEPTH[0] += 1
            try:
                outs, status = fsth.translate_all(self, [word])
            finally:
                _DEPTH[0] -= 1
            return {"op": "translate", "T": fsth.project(self), "words": [[fa.tag(x) for x in word]], "outs": outs, "status": status}
        except Exception:  # pylint: disable=broad-except
            return None

    _wrap(FST, "translate", translate_before, lambda ctx, res: ctx)


if os.environ.get("PYFORMLANG_VERIF") == "1" and os.environ.get("VERIF_RECORD_FILE"):
    install()
