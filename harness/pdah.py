"""PDA helpers: building through the public API, projection."""
import itertools
import json

from pyformlang.pda import PDA, State, Symbol, StackSymbol, Epsilon

from . import guard
from .fa import tag

STATE_POOLS = {
    "q": {"q0": "q0", "q1": "q1", "q2": "q2"},
    "int": {"q0": 0, "q1": 1, "q2": 2},
    "reserved": {"q0": "#STARTTOFINAL#", "q1": "#ENDEMPTYS#", "q2": "#STARTEMPTYS#"},
}
STACK_POOLS = {
    "ZX": {"Z": "Z", "X": "X", "Y": "Y"},
    "reserved": {"Z": "#BOTTOMTOFINAL#", "X": "#BOTTOMEMPTYS#", "Y": "#StartCFG#"},
    "int": {"Z": 0, "X": 1, "Y": 2},
}


def sym_tag(s):
    if isinstance(s, Epsilon) or getattr(s, "value", None) == "epsilon":
        return "eps"
    return tag(_v(s))


def _v(x):
    """value of a State / Symbol / StackSymbol; a bare object (even None) that ended up where such an object belongs
    is projected as itself, so that the trace specification can reject it"""
    return x.value if hasattr(x, "value") else x


def project(p):
    z0 = "none"
    try:
        g = p.to_networkx()
        if "INITIAL_STACK_HIDDEN" in g.nodes:
            z0 = tag(json.loads(g.nodes["INITIAL_STACK_HIDDEN"]["label"]))
    except Exception:  # pylint: disable=broad-except
        z0 = "err"
    delta = []
    for key, outs in p.to_dict().items():
        for s_to, stack_to in outs:
            delta.append([tag(_v(key[0])), sym_tag(key[1]), tag(_v(key[2])), tag(_v(s_to)),
                          [tag(_v(x)) for x in stack_to if sym_tag(x) != "eps"]])
    return {"states": sorted(tag(_v(s)) for s in p.states),
            "start": tag(_v(p.start_state)) if p.start_state is not None else "none",
            "z0": z0, "finals": sorted(tag(_v(s)) for s in p.final_states), "delta": sorted(delta)}


def build(hist, spool="q", kpool="ZX", ymap=None, extra_states=()):
    """Execute the generator's history on a fresh PDA; returns (pda, spec value in tagged names).
    extra_states: states declared through the constructor (they need no transition)."""
    sm, km = STATE_POOLS[spool], STACK_POOLS[kpool]
    ymap = ymap or {"a": "a", "b": "b"}
    p = PDA(states=set(extra_states)) if extra_states else PDA()
    spec = {"states": set(tag(x) for x in extra_states), "start": "none", "z0": "none", "finals": set(), "delta": []}
    for c in hist:
        op = c[0]
        if op == "set_start_state":
            p.set_start_state(sm[c[1]])
            spec["start"] = tag(sm[c[1]])
            spec["states"].add(tag(sm[c[1]]))
        elif op == "set_start_stack_symbol":
            p.set_start_stack_symbol(km[c[1]])
            spec["z0"] = tag(km[c[1]])
        elif op == "add_final_state":
            p.add_final_state(sm[c[1]])
            spec["finals"].add(tag(sm[c[1]]))
            spec["states"].add(tag(sm[c[1]]))
        elif op == "add_transition":
            a = "epsilon" if c[2] == "eps" else ymap[c[2]]
            p.add_transition(sm[c[1]], a, km[c[3]], sm[c[4]], [km[x] for x in c[5]])
            spec["delta"].append([tag(sm[c[1]]), "eps" if c[2] == "eps" else tag(ymap[c[2]]), tag(km[c[3]]),
                                  tag(sm[c[4]]), [tag(km[x]) for x in c[5]]])
            spec["states"].update([tag(sm[c[1]]), tag(sm[c[4]])])
    spec["states"] = sorted(spec["states"])
    spec["finals"] = sorted(spec["finals"])
    spec["delta"] = sorted(spec["delta"])
    return p, spec


def words_upto(symbols, n):
    out = []
    for k in range(n + 1):
        out.extend(itertools.product(symbols, repeat=k))
    return out
