"""FST helpers: building through the public API, projection, translation under a watchdog."""
import itertools

from pyformlang.fst import FST

from . import guard
from .fa import tag

STATE_POOLS = {
    "q": {"q0": "q0", "q1": "q1", "q2": "q2"},
    "digits": {"q0": "q", "q1": "q0", "q2": "q00"},       # names that collide with the renaming scheme state + str(counter)
    "int": {"q0": 0, "q1": 1, "q2": 2},
}


def itag(a):
    return "eps" if a == "epsilon" else tag(a)


def project(t):
    delta = []
    for (p, a), outs in t.transitions.items():
        for q, o in outs:
            delta.append([tag(p), itag(a), tag(q), [tag(x) for x in o]])
    return {"states": sorted(tag(s) for s in t.states), "starts": sorted(tag(s) for s in t.start_states),
            "finals": sorted(tag(s) for s in t.final_states), "delta": sorted(delta)}


def build(hist, spool="q", outs=list):
    """outs: the container type in which the output symbols are handed to add_transition (declared Iterable)"""
    sm = STATE_POOLS[spool]
    t = FST()
    spec = {"states": set(), "starts": set(), "finals": set(), "delta": []}
    for c in hist:
        if c[0] == "add_transition":
            a = "epsilon" if c[2] == "eps" else c[2]
            t.add_transition(sm[c[1]], a, sm[c[3]], outs(c[4]))
            spec["delta"].append([tag(sm[c[1]]), itag(a), tag(sm[c[3]]), [tag(x) for x in c[4]]])
            spec["states"].update([tag(sm[c[1]]), tag(sm[c[3]])])
        elif c[0] == "add_start_state":
            t.add_start_state(sm[c[1]])
            spec["starts"].add(tag(sm[c[1]]))
            spec["states"].add(tag(sm[c[1]]))
        else:
            t.add_final_state(sm[c[1]])
            spec["finals"].add(tag(sm[c[1]]))
            spec["states"].add(tag(sm[c[1]]))
    for k in ("states", "starts", "finals", "delta"):
        spec[k] = sorted(spec[k])
    return t, spec


def translate_all(t, words, limit=300, timeout=1.5):
    outs, status = [], []
    dead = False
    for w in words:
        if dead:            # one non-terminating translation is enough evidence; do not wait for the others
            outs.append([])
            status.append("timeout")
            continue
        r = guard.take(lambda: t.translate(list(w)), limit, timeout=timeout)
        if r[0] == "ok" and r[2]:
            outs.append([[tag(x) for x in o] for o in r[1]])
            status.append("ok")
        elif r[0] == "ok":
            outs.append([])
            status.append("unbounded")
        elif r[0] == "exc":
            outs.append([])
            status.append("exc:" + r[1])
        else:
            outs.append([])
            status.append("timeout")
            dead = True
    return outs, status


def words_upto(symbols, n):
    out = []
    for k in range(n + 1):
        out.extend(itertools.product(symbols, repeat=k))
    return out
