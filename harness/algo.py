"""Model runs of the algorithm-level specifications (spec/algo): pyformlang's own algorithms as state machines
with nondeterministic iteration orders, checked by TLC against the reference semantics (M2 in DESIGN.md).
`expect=("violates", Inv)` runs model the algorithm *before* a recorded repair: TLC must refute them, which shows the
specification is sensitive to that defect class at design level."""

DL = "CHECK_DEADLOCK FALSE\n"


def leads_to_final(tier):
    n, e = (3, 3) if tier == "quick" else (3, 4)
    runs = [dict(name="LeadsToFinalFixed", module="LeadsToFinalFixed", timeout=900,
                 cfg="SPECIFICATION Spec\nCONSTANTS N = %d\n MaxE = %d\nINVARIANT Exact\nINVARIANT Sound\n%s" % (n, e + 1, DL))]
    runs.append(dict(name="LeadsToFinal-as-before-fix", module="LeadsToFinal", timeout=900, expect=("violates", "Complete"),
                     cfg="SPECIFICATION Spec\nCONSTANTS N = 3\n MaxE = 3\nINVARIANT Complete\n%s" % DL))
    return runs


def hopcroft(tier):
    n = 2 if tier == "quick" else 3
    return [dict(name="Hopcroft", module="Hopcroft", timeout=1200,
                 cfg='SPECIFICATION Spec\nCONSTANTS N = %d\n Sym = {"a","b"}\nINVARIANT Correct\nINVARIANT IsPartition\n%s' % (n, DL))]


def minimize_equiv(tier):
    alph = '{"a"}' if tier == "quick" else '{"a","b"}'
    n = 2
    runs = [dict(name="MinimizeEquiv-fixed", module="MinimizeEquiv", timeout=1800, workers=16,
                 cfg='SPECIFICATION Spec\nCONSTANTS N = %d\n Alph = %s\nINVARIANT VerdictFixed\n%s' % (n, alph, DL))]
    if tier != "quick":
        runs.append(dict(name="MinimizeEquiv-as-before-fix", module="MinimizeEquiv", timeout=1800, expect=("violates", "VerdictCoded"),
                         cfg='SPECIFICATION Spec\nCONSTANTS N = 2\n Alph = {"a"}\nINVARIANT VerdictCoded\n%s' % DL))
    return runs


def names(tier, which):
    """Names.tla: the naming schemes of result states (which = "group": minimize/to_deterministic, "pair": products)."""
    base = 'SPECIFICATION Spec\nCONSTANTS PoolId = %d\n PairScheme = "%s"\n Sep = "%s"\n GroupScheme = "%s"\nINVARIANT %s\n' + DL
    if which == "group":
        runs = [dict(name="Names-group-loop", module="Names", timeout=300, cfg=base % (1, "pair", "; ", "loop", "GroupsDistinct"))]
        if tier != "quick":
            runs += [dict(name="Names-group-as-before-fix", module="Names", timeout=300, expect=("violates", "GroupsDistinct"),
                          cfg=base % (1, "pair", "; ", "plain", "GroupsDistinct")),
                     dict(name="Names-group-seeded-C02-r2-2", module="Names", timeout=300, expect=("violates", "GroupsDistinct"),
                          cfg=base % (1, "pair", "; ", "count", "GroupsDistinct")),
                     dict(name="Names-group-plain-names", module="Names", timeout=300,
                          cfg=base % (3, "pair", "; ", "plain", "GroupsDistinct"))]
        return runs
    runs = [dict(name="Names-pair", module="Names", timeout=300, cfg=base % (2, "pair", "; ", "loop", "PairInjective"))]
    if tier != "quick":
        runs += [dict(name="Names-pair-as-before-fix", module="Names", timeout=300, expect=("violates", "PairInjective"),
                      cfg=base % (2, "join", "; ", "loop", "PairInjective")),
                 dict(name="Names-pair-seeded-C03-r2-1", module="Names", timeout=300, expect=("violates", "PairInjective"),
                      cfg=base % (2, "join", ";", "loop", "PairInjective")),
                 dict(name="Names-pair-plain-names", module="Names", timeout=300,
                      cfg=base % (3, "join", "; ", "loop", "PairInjective"))]
    return runs


def gen_null_worklist(tier):
    mp = 3 if tier == "quick" else 3
    return [dict(name="GenNullWorklist", module="GenNullWorklist", timeout=1200,
                 cfg='SPECIFICATION Spec\nCONSTANTS V = {"S","A"}\n T = {"a"}\n MaxProds = %d\n MaxBody = 2\nINVARIANT ResultOK\n'
                     'INVARIANT CountersRestored\nINVARIANT CountersNonNegative\n%s' % (mp, DL))]


def marking(tier):
    mr = 3
    base = 'SPECIFICATION Spec\nCONSTANTS NT = {"S","A","B"}\n IDX = {"f"}\n MaxRules = %d\n AsCoded = %s\nINVARIANT %s\n%s'
    runs = [dict(name="Marking-fixed", module="Marking", timeout=1800,
                 cfg=(base % (mr, "FALSE", "SoundMarks\nINVARIANT VerdictOK", DL)).replace("SPECIFICATION Spec", "INIT InitX\nNEXT Next"))]
    if tier != "quick":
        runs.append(dict(name="Marking-as-before-fix", module="Marking", timeout=1800, expect=("violates", "SoundMarks"),
                         cfg=(base % (mr, "TRUE", "SoundMarks", DL)).replace("SPECIFICATION Spec", "INIT InitX\nNEXT Next")))
    return runs


def earley(tier):
    base = ('SPECIFICATION Spec\nCONSTANTS V = {"S","A"}\n T = {"a"}\n MaxProds = %d\n MaxBody = 2\n MaxWord = 2\n Repaired = %s\n'
            'INVARIANT %s\n%s')
    mp = 2 if tier == "quick" else 3
    runs = [dict(name="Earley-repaired", module="Earley", timeout=1800, cfg=base % (mp, "TRUE", "Correct\nINVARIANT NoCrash", DL))]
    if tier != "quick":
        runs.append(dict(name="Earley-as-before-fix", module="Earley", timeout=1800, expect=("violates", "Correct"),
                         cfg=base % (2, "FALSE", "Correct", DL)))
    return runs


def subset_construction(tier):
    """SubsetConstruction.tla: EpsilonNFA._to_deterministic_internal as a worklist machine over every epsilon-NFA within
    the constants and every symbol-iteration order; the two closure-dropping variants must be refuted."""
    base = ('SPECIFICATION Spec\nCONSTANTS N = %d\n Sym = {"a","b"}\n MaxT = %d\n MaxW = 3\n Variant = "%s"\n%s' + DL)
    invs = "".join("INVARIANT %s\n" % i for i in ("TodoProcessed", "NoDuplicateWork", "SourcesKnown", "DetOK", "Exact", "LangOK"))
    n, t = (2, 3) if tier == "quick" else (3, 3)
    runs = [dict(name="SubsetConstruction", module="SubsetConstruction", timeout=1800, workers=16, cfg=base % (n, t, "code", invs))]
    for v in ("noStartEclose", "noStepEclose"):
        runs.append(dict(name="SubsetConstruction-" + v, module="SubsetConstruction", timeout=600, expect=("violates", "LangOK"),
                         why="sensitivity variant of the model", cfg=base % (2, 3, v, "INVARIANT LangOK\n")))
    return runs


def product_intersection(tier):
    """ProductIntersection.tla: EpsilonNFA.get_intersection as a worklist machine over every pair of epsilon-NFAs within the
    constants and every iteration order; two variants (closure forgotten on one side, `or` for the final pairs) must be refuted."""
    base = ('SPECIFICATION Spec\nCONSTANTS N = 2\n Sym = {"a","b"}\n MaxTA = 2\n MaxTB = %d\n MaxW = 3\n Variant = "%s"\n%s' + DL)
    invs = "".join("INVARIANT %s\n" % i for i in ("TodoProcessed", "NoDuplicateWork", "EndsKnown", "LangOK", "PairsReal"))
    runs = [dict(name="ProductIntersection", module="ProductIntersection", timeout=1800, workers=16,
                 cfg=base % (1 if tier == "quick" else 2, "code", invs))]
    for v in ("noEcloseOther", "finalsEither"):
        runs.append(dict(name="ProductIntersection-" + v, module="ProductIntersection", timeout=600, expect=("violates", "LangOK"),
                         why="sensitivity variant of the model", cfg=base % (1, v, "INVARIANT LangOK\n")))
    return runs


def acyclic_paths(tier):
    """AcyclicPaths.tla: FiniteAutomaton.is_acyclic (stack of (state, path) entries) over every small graph, start set and
    visiting order; the shared-visited-set variant (a diamond reported as a cycle) must be refuted."""
    base = 'SPECIFICATION Spec\nCONSTANTS N = %d\n MaxE = %d\n Variant = "%s"\n%s' + DL
    invs = "".join("INVARIANT %s\n" % i for i in ("Exact", "PathsReal", "PathsBounded", "Bounded"))
    n, e = (3, 3) if tier == "quick" else (3, 4)
    return [dict(name="AcyclicPaths", module="AcyclicPaths", timeout=1800, workers=16, cfg=base % (n, e, "code", invs)),
            dict(name="AcyclicPaths-sharedVisited", module="AcyclicPaths", timeout=600, expect=("violates", "Exact"),
                 why="sensitivity variant of the model", cfg=base % (3, 3, "sharedVisited", "INVARIANT Exact\n"))]
