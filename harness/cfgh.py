"""CFG helpers shared by the drivers: name pools, construction, projection."""
import itertools

from pyformlang.cfg import CFG, Production, Variable, Terminal, Epsilon

from . import guard
from .fa import tag

VAR_POOLS = {
    "upper": {"S": "S", "A": "A", "B": "B", "C": "C"},
    "fresh": {"S": "S", "A": "a#CNF#", "B": "C#CNF#1", "C": "b#CNF#"},      # look like the CNF helper variables
    "alg": {"S": "S", "A": "#STARTUNION#", "B": "S#SUBS#0", "C": "#STARTSTAR#"},
    "int": {"S": "S", "A": 10, "B": 11, "C": 12},      # disjoint from the int terminals 0,1,2
    "clash": {"S": "S", "A": "a", "B": "b", "C": "c"},        # same values as the terminals
    "subs_lo": {"S": "S", "A": "S#SUBS#0", "B": "S#SUBS#1", "C": "S#SUBS#2"},   # look like substitute's fresh variables
    "subs_hi": {"S": "S", "A": "S#SUBS#3", "B": "S#SUBS#2", "C": "A#SUBS#1"},
    "int0": {"S": "S", "A": 0, "B": 1, "C": 2},
    "termlike": {"S": "S", "A": "#TERM#a", "B": "#TERM#b", "C": "#TERM#S"},   # spelled like to_pda's stack symbols for terminals
    "dollar": {"S": "S", "A": "$", "B": "B", "C": "C"},       # a variable spelled like the end marker of the LL(1) parser
    "other": {"S": "T", "A": "X", "B": "Y", "C": "Z"},          # shares no name with "upper"
    # with the terminal pool "Cterm": names of the helpers to_normal_form makes for the terminal C and for long bodies
    "freshC": {"S": "S", "A": "C#CNF#", "B": "C#CNF#2", "C": "d#CNF#"},
}
TERM_POOLS = {
    "ab": {"a": "a", "b": "b", "c": "c"},
    "int": {"a": 0, "b": 1, "c": 2},
    "upperT": {"a": "A", "b": "B", "c": "C"},
    "Cterm": {"a": "C", "b": "d", "c": "e"},
    "digits": {"a": "0", "b": "1", "c": "2"},          # strings spelled like the integer variables of pool "int0"          # terminals spelled like the variables of the "upper" pool
}


def vt(v):
    if isinstance(v, Variable):
        v = v.value
    return "V:" + tag(v)


def tt(t):
    if isinstance(t, Terminal):
        t = t.value
    return "T:" + tag(t)


def sym_tag(x):
    if isinstance(x, Epsilon):
        return "eps"
    if isinstance(x, Variable):
        return vt(x)
    if isinstance(x, Terminal):
        return tt(x)
    if isinstance(x, Epsilon):
        return "eps"
    return "O:" + repr(x)


def project(g):
    prods = []
    allv = set(vt(v) for v in g.variables)
    for p in g.productions:
        body = [sym_tag(x) for x in p.body]
        prods.append([vt(p.head), body])
        allv.add(vt(p.head))
        allv.update(b for b in body if b.startswith("V:"))
    start = vt(g.start_symbol) if g.start_symbol is not None else "none"
    return {"start": start, "vars": sorted(vt(v) for v in g.variables),
            "terms": sorted(tt(t) for t in g.terminals), "allv": sorted(allv), "prods": sorted(prods)}


def make(prods, vpool="upper", tpool="ab", order=None, declare=False, nostart=False, container=None):
    """prods: list of [head, [body]] over abstract names S,A,B / a,b.  Returns (cfg, tagged start, tagged prods).
    declare=True passes the whole variable and terminal pools to the constructor (declared but possibly unused symbols)."""
    vm, tm = VAR_POOLS[vpool], TERM_POOLS[tpool]
    plist = []
    tagged = []
    for h, b in prods:
        body = [Variable(vm[x]) if x in vm else Terminal(tm[x]) for x in b]
        plist.append(Production(Variable(vm[h]), body))
        tagged.append([vt(vm[h]), [vt(vm[x]) if x in vm else tt(tm[x]) for x in b]])
    if order:
        plist = [plist[i] for i in order]
    if container == "dup":        # a list in which every production occurs twice
        return CFG(start_symbol=Variable(vm["S"]), productions=plist + list(reversed(plist))), vt(vm["S"]), tagged
    if container == "gen":        # a one-shot iterable (the parameter is declared Iterable[Production])
        return CFG(start_symbol=Variable(vm["S"]), productions=(p for p in plist)), vt(vm["S"]), tagged
    if nostart:     # a grammar object without start symbol (the constructor's default): it generates nothing
        g = CFG(productions=set(plist))
        return g, "none", tagged
    if declare:
        g = CFG(variables={Variable(v) for v in vm.values()}, terminals={Terminal(t) for t in tm.values()},
                start_symbol=Variable(vm["S"]), productions=set(plist))
    else:
        g = CFG(start_symbol=Variable(vm["S"]), productions=set(plist) if order is None else plist)
    return g, vt(vm["S"]), tagged


def words_upto(tpool, n, extra=()):
    tm = TERM_POOLS[tpool]
    syms = [tm["a"], tm["b"]] + list(extra)
    out = []
    for k in range(n + 1):
        out.extend(itertools.product(syms, repeat=k))
    return out


def tagw(w):
    return [tt(x) for x in w]


def result_event(op, G, r, **extra):
    ev = {"op": op, "G": G}
    ev.update(extra)
    if r[0] == "ok":
        ev["R"] = project(r[1])
    elif r[0] == "exc":
        ev["exc"], ev["msg"] = r[1], r[2]
    else:
        ev["exc"] = "Timeout"
    return ev


def bool_event(op, G, r, **extra):
    ev = {"op": op, "G": G}
    ev.update(extra)
    if r[0] == "ok":
        ev["res"] = bool(r[1])
    elif r[0] == "exc":
        ev["exc"], ev["msg"] = r[1], r[2]
    else:
        ev["exc"] = "Timeout"
    return ev


def set_event(op, G, r, **extra):
    ev = {"op": op, "G": G}
    ev.update(extra)
    if r[0] == "ok":
        ev["res"] = sorted(sym_tag(x) for x in r[1])
    elif r[0] == "exc":
        ev["exc"], ev["msg"] = r[1], r[2]
    else:
        ev["exc"] = "Timeout"
    return ev


def cfg_features(G):
    prods = G["prods"]
    allv = set(G["allv"])
    return {"has_eps_prod": any(not b for _, b in prods),
            "has_unit": any(len(b) == 1 and b[0] in allv for _, b in prods),
            "has_self_unit": any(len(b) == 1 and b[0] == h for h, b in prods),
            "max_body": max([len(b) for _, b in prods] or [0])}
