"""Watchdog around implementation calls (DESIGN 2.5).  Re-entrant: a guarded call made inside another guarded call
never disarms or extends the outer alarm.  The budget is CPU time of the worker process (ITIMER_PROF), not wall-clock
time, so a loaded machine does not turn slow calls into timeouts; VERIF_TIMEOUT_SCALE multiplies every budget (used
by the confirmation pass of harness/core.py)."""
import os
import signal
import time

SCALE = float(os.environ.get("VERIF_TIMEOUT_SCALE", "1") or 1)
_WHICH = signal.ITIMER_PROF
_now = time.process_time


class CallTimeout(BaseException):
    pass


def _alarm(signum, frame):
    raise CallTimeout()


signal.signal(signal.SIGPROF, _alarm)


class _Timer:
    """Arms the alarm for min(timeout, what is left of the enclosing alarm); restores the enclosing alarm on exit."""

    def __init__(self, timeout):
        self.timeout = timeout

    def __enter__(self):
        self.outer = signal.getitimer(_WHICH)[0]
        self.t0 = _now()
        t = self.timeout if self.outer <= 0 else min(self.timeout, self.outer)
        signal.setitimer(_WHICH, max(t, 0.001))
        return self

    def __exit__(self, *a):
        if self.outer > 0:
            left = self.outer - (_now() - self.t0)
            signal.setitimer(_WHICH, max(left, 0.001))
        else:
            signal.setitimer(_WHICH, 0)
        return False


def call(fn, *args, timeout=2.0, **kw):
    """-> ('ok', value) | ('exc', 'ClassName', message) | ('timeout',)"""
    outer_armed = signal.getitimer(_WHICH)[0] > 0
    timeout = timeout * SCALE
    t0 = _now()
    try:
        with _Timer(timeout):
            v = fn(*args, **kw)
        return ("ok", v)
    except CallTimeout:
        if outer_armed and _now() - t0 < timeout * 0.95:
            raise            # it was the enclosing alarm that fired: let the enclosing guarded call see it
        return ("timeout",)
    except RecursionError:
        return ("exc", "RecursionError", "")
    except Exception as e:  # pylint: disable=broad-except
        return ("exc", type(e).__name__, str(e)[:200])


def take(gen_fn, limit, timeout=2.0):
    """Consume at most `limit` items of the iterable returned by gen_fn().
    -> ('ok', items, exhausted) | ('exc', name, msg) | ('timeout', items)"""
    items = []
    outer_armed = signal.getitimer(_WHICH)[0] > 0
    timeout = timeout * SCALE
    t0 = _now()
    try:
        with _Timer(timeout):
            it = iter(gen_fn())
            exhausted = True
            for x in it:
                if len(items) >= limit:
                    exhausted = False
                    break
                items.append(x)
        return ("ok", items, exhausted)
    except CallTimeout:
        if outer_armed and _now() - t0 < timeout * 0.95:
            raise
        return ("timeout", items)
    except Exception as e:  # pylint: disable=broad-except
        return ("exc", type(e).__name__, str(e)[:200])
