"""Watchdog around implementation calls (DESIGN 2.5)."""
import signal
import itertools


class CallTimeout(BaseException):
    pass


def _alarm(signum, frame):
    raise CallTimeout()


signal.signal(signal.SIGALRM, _alarm)


def call(fn, *args, timeout=2.0, **kw):
    """-> ('ok', value) | ('exc', 'ClassName', message) | ('timeout',)"""
    signal.setitimer(signal.ITIMER_REAL, timeout)
    try:
        v = fn(*args, **kw)
        signal.setitimer(signal.ITIMER_REAL, 0)
        return ("ok", v)
    except CallTimeout:
        return ("timeout",)
    except RecursionError as e:
        signal.setitimer(signal.ITIMER_REAL, 0)
        return ("exc", "RecursionError", "")
    except Exception as e:  # pylint: disable=broad-except
        signal.setitimer(signal.ITIMER_REAL, 0)
        return ("exc", type(e).__name__, str(e)[:200])
    finally:
        signal.setitimer(signal.ITIMER_REAL, 0)


def take(gen_fn, limit, timeout=2.0):
    """Consume at most `limit` items of the iterable returned by gen_fn().
    -> ('ok', items, exhausted) | ('exc', name, msg) | ('timeout', items)"""
    items = []
    signal.setitimer(signal.ITIMER_REAL, timeout)
    try:
        it = iter(gen_fn())
        exhausted = True
        for x in it:
            if len(items) >= limit:
                exhausted = False
                break
            items.append(x)
        signal.setitimer(signal.ITIMER_REAL, 0)
        return ("ok", items, exhausted)
    except CallTimeout:
        return ("timeout", items)
    except Exception as e:  # pylint: disable=broad-except
        signal.setitimer(signal.ITIMER_REAL, 0)
        return ("exc", type(e).__name__, str(e)[:200])
    finally:
        signal.setitimer(signal.ITIMER_REAL, 0)
