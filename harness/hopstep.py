"""Step-level recording of DeterministicFiniteAutomaton._get_partition (Hopcroft refinement) for TraceHopcroft.tla.
No source hook: the internal helper classes are wrapped from here while one call runs; if a helper no longer
exists (refactoring) the recording is skipped and nothing is judged."""
from . import fa


def record(dfa):
    """Run dfa._get_partition() and return the event {n, delta, finals, symorder, steps} or None."""
    try:
        from pyformlang.finite_automaton.hopcroft_processing_list import HopcroftProcessingList
        from pyformlang.finite_automaton.partition import Partition
    except ImportError:
        return None
    if not hasattr(dfa, "_get_partition") or not dfa.final_states:
        return None
    states = sorted(dfa.states, key=fa.tag)
    idx = {s: i + 1 for i, s in enumerate(states)}
    idx[None] = 0
    symorder = list(dfa.symbols)
    if not symorder:
        return None
    delta = [[0] * len(symorder)]
    for s in states:
        row = []
        for y in symorder:
            nxt = dfa(s, y)
            row.append(idx[nxt[0]] if nxt else 0)
        delta.append(row)
    holder = {}
    steps = []

    def snapshot(pl):
        part = holder.get("part")
        if part is None:
            return
        groups = [sorted(idx[x] for x in g) for g in part.get_groups()]
        inc = []
        for sym, j in pl._reverse_symbols.items():          # pylint: disable=protected-access
            for c in range(len(groups)):
                if pl._inclusion[c, j]:                     # pylint: disable=protected-access
                    inc.append([c + 1, fa.tag_sym(sym)])
        steps.append({"part": groups, "plist": [[c + 1, fa.tag_sym(y)] for c, y in pl._elements],   # pylint: disable=protected-access
                      "incl": inc})

    o_init, o_pop, o_empty = Partition.__init__, HopcroftProcessingList.pop, HopcroftProcessingList.is_empty

    def p_init(self, *a, **k):
        o_init(self, *a, **k)
        holder["part"] = self

    def pl_pop(self):
        snapshot(self)
        return o_pop(self)

    def pl_empty(self):
        r = o_empty(self)
        if r:
            snapshot(self)
        return r
    Partition.__init__, HopcroftProcessingList.pop, HopcroftProcessingList.is_empty = p_init, pl_pop, pl_empty
    try:
        dfa._get_partition()                                # pylint: disable=protected-access
    except Exception as e:  # pylint: disable=broad-except
        return {"op": "hopcroft_steps", "trace": "TraceHopcroft", "exc": type(e).__name__, "n": len(states), "delta": delta,
                "finals": sorted(idx[s] for s in dfa.final_states), "symorder": [fa.tag_sym(y) for y in symorder],
                "steps": steps or [{"part": [], "plist": [], "incl": []}]}
    finally:
        Partition.__init__, HopcroftProcessingList.pop, HopcroftProcessingList.is_empty = o_init, o_pop, o_empty
    if not steps:
        return None
    return {"op": "hopcroft_steps", "trace": "TraceHopcroft", "n": len(states), "delta": delta,
            "finals": sorted(idx[s] for s in dfa.final_states), "symorder": [fa.tag_sym(y) for y in symorder], "steps": steps}
