#!/venv/bin/python
"""Re-confirm and re-evaluate seeded changes kept under /verif/seeded against the current /repo HEAD.

usage: tools/reseed.py [--tier quick] [--only C01-1,C03-r2-1] [--jobs-slice i/n]
For every seeded/<dir>/ (patch.diff, demo.py, meta.json):
 1. a scratch worktree of /repo's HEAD is created under /tmp (removed afterwards); the demonstration must exit 0 there,
    the patch must apply, the unedited suite must stay green (289 passed) and the demonstration must exit non-zero;
    a change that no longer applies or no longer breaks anything on the current tree (because a later repair removed
    the hazard it relied on) is recorded as `obsolete` and not evaluated;
 2. the checks named in meta.json (`checks` keys, default: the property's own check) are run with VERIF_REPO pointing at
    the scratch worktree (same checks, same code path as with `git -C /repo apply`; /repo itself is not touched);
 3. meta.json is rewritten: `first_run` is kept, `confirmed`, `checks`, `detected_by`, `tree` are refreshed.
"""
import argparse
import json
import os
import re
import subprocess
import sys
import time

ROOT = os.path.dirname(os.path.dirname(os.path.abspath(__file__)))


def sh(cmd, cwd=None, env=None, timeout=7200):
    e = dict(os.environ)
    if env:
        e.update(env)
    p = subprocess.run(cmd, shell=True, cwd=cwd, env=e, stdout=subprocess.PIPE, stderr=subprocess.STDOUT, text=True, timeout=timeout)
    return p.returncode, p.stdout


def main():
    ap = argparse.ArgumentParser()
    ap.add_argument("--tier", default="quick")
    ap.add_argument("--only")
    ap.add_argument("--slice", default="0/1")
    a = ap.parse_args()
    i, n = [int(x) for x in a.slice.split("/")]
    dirs = sorted(d for d in os.listdir(os.path.join(ROOT, "seeded")) if os.path.isfile(os.path.join(ROOT, "seeded", d, "patch.diff")))
    if a.only:
        dirs = [d for d in dirs if d in a.only.split(",")]
    dirs = [d for k, d in enumerate(dirs) if k % n == i]
    head = sh("git log --format=%h -1", cwd="/repo")[1].strip()
    for d in dirs:
        sd = os.path.join(ROOT, "seeded", d)
        meta = json.load(open(os.path.join(sd, "meta.json")))
        if "first_run" not in meta:
            meta["first_run"] = {"checks": meta.get("checks", {}), "detected_by": meta.get("detected_by", [])}
        wt = "/tmp/reseed-%d" % os.getpid()
        sh("git worktree remove --force %s" % wt, cwd="/repo")
        rc, o = sh("git worktree add --detach %s HEAD" % wt, cwd="/repo")
        if rc != 0:
            print(d, "cannot create worktree", o)
            return 2
        try:
            conf = {"tree": head}
            rc0, _ = sh("PYTHONPATH=%s /venv/bin/python %s" % (wt, os.path.join(sd, "demo.py")), cwd="/tmp", timeout=900)
            rca, oa = sh("git apply %s" % os.path.join(sd, "patch.diff"), cwd=wt)
            conf["applies_to_clean_checkout"] = rca == 0
            if rca == 0:
                rc1, _ = sh("PYTHONPATH=%s /venv/bin/python %s" % (wt, os.path.join(sd, "demo.py")), cwd="/tmp", timeout=900)
                rct, ot = sh("PYTHONPATH=%s /venv/bin/python -m pytest -q -p no:cacheprovider pyformlang 2>&1 | tail -3" % wt, cwd=wt)
                m = re.search(r"(\d+) passed", ot)
                conf.update(demo_exit_without_change=rc0, demo_exit_with_change=rc1,
                            tests_with_change=ot.strip().splitlines()[-1] if ot.strip() else "",
                            suite_green=bool(m and int(m.group(1)) == 289 and "failed" not in ot))
                conf["ok"] = rc0 == 0 and rc1 != 0 and conf["suite_green"]
            else:
                conf["ok"] = False
            meta["confirmed"] = conf
            if not conf["ok"]:
                meta["obsolete"] = ("on tree %s: " % head) + (
                    "the patch no longer applies" if rca != 0 else
                    "the demonstration no longer fails with the change" if conf.get("demo_exit_with_change") == 0 else
                    "the demonstration fails without the change" if rc0 != 0 else "the suite is not green with the change")
                print(d, "OBSOLETE:", meta["obsolete"])
            else:
                meta.pop("obsolete", None)
                checks = list(meta.get("checks", {}).keys()) or [meta["property"]]
                meta["checks"] = {}
                for c in checks:
                    t0 = time.time()
                    rc, o = sh("./check %s --tier %s" % (c, a.tier), cwd=ROOT, env={"VERIF_REPO": wt})
                    lines = [l for l in o.splitlines() if l.startswith(("VIOLATION", "MACHINERY", "KNOWN-FINDING"))]
                    meta["checks"][c] = dict(tier=a.tier, exit=rc, wall_s=round(time.time() - t0, 1), lines=lines[:12],
                                             detected=(rc == 1 and any(l.startswith("VIOLATION") for l in lines)))
                meta["detected_by"] = [c for c, v in meta["checks"].items() if v["detected"]]
                meta["ran"] = "tools/reseed.py --only %s --tier %s (scratch worktree of %s, VERIF_REPO)" % (d, a.tier, head)
                print(d, "detected by", meta["detected_by"] or "NOTHING", [v["exit"] for v in meta["checks"].values()])
            with open(os.path.join(sd, "meta.json"), "w") as f:
                json.dump(meta, f, indent=1)
        finally:
            sh("git worktree remove --force %s" % wt, cwd="/repo")
        sys.stdout.flush()
    return 0


if __name__ == "__main__":
    sys.exit(main())
