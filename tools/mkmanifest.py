#!/venv/bin/python
"""Regenerate /verif/MANIFEST.json from the per-property table below (and validate it)."""
import json
import os
import sys

ROOT = os.path.dirname(os.path.dirname(os.path.abspath(__file__)))

# property -> (technique, level text, level note, design ref)
CHECKS = {
    "C01": ("TLA+ API state machine (FAObj/FAGen) enumerated by TLC, every reachable automaton replayed through "
            "the public API, every call judged by the TLA+ trace spec TraceFA with the exact FASem oracle; "
            "algorithm-level TLA+ model of the subset construction (SubsetConstruction) model-checked over every small epsilon-NFA and iteration order",
            "Exhaustive within small constants: every automaton reachable through add/remove calls (<=2|3 states, "
            "<=3|4 transitions, all start/final sets) in the three classes, under label permutations, four name "
            "pools and several hash seeds, plus a seeded random family; each accepts/conversion call is settled by "
            "an exact language-equivalence decision evaluated by TLC on the recorded structure.",
            "Trusted: TLC, its Json module, harness/fa.py projection. Bounded: automata sizes and name pools as "
            "written in the evidence file; not a proof for all automata.", "DESIGN.md section 3 C01"),
    "C04": ("TLA+ API state machine (FAGen) enumerated by TLC, replayed through the public API under label "
            "permutations and hash seeds; is_empty/is_deterministic/is_acyclic/get_accepted_words judged by TraceFA "
            "against FASem (reachability, three-clause determinism, cycle search, bounded language); algorithm-level TLA+ "
            "models of the co-reachability worklist (LeadsToFinalFixed) and of is_acyclic (AcyclicPaths) model-checked over every small graph and order",
            "Exhaustive within small constants (all epsilon-NFAs with <=2 states/<=3 transitions over {a,b}; sampled or "
            "complete 3-state families), every enumeration bound n in 0..4 and n=None on finite languages; each answer "
            "is compared by TLC with the exact set computed from the recorded structure.",
            "Trusted: TLC, projection. Termination is decided by a step budget plus alarm. Bounded sizes.",
            "DESIGN.md section 3 C04"),
    "C02": ("TLA+ two-object API state machine (FAGen2: independent and derived pairs) enumerated by TLC, replayed "
            "through the public API; is_equivalent_to / == / minimize judged by TraceFA: exact Equiv by product "
            "reachability, Myhill-Nerode reducedness, isomorphism of the minimal automata of equivalent operands",
            "Exhaustive within small constants over ordered pairs (B independent, or A's history plus <=2 further calls "
            "over one extra state: explicit sinks, dead/unreachable states, larger alphabets), both call directions, "
            "label permutations and hash seeds; every verdict is compared by TLC with an exact equivalence decision.",
            "Trusted: TLC, projection. Bounded sizes; the derived family is the part that reaches sink/dead-state pairs.",
            "DESIGN.md section 3 C02"),
    "C03": ("TLA+ two-object API state machine (FAGen2) enumerated by TLC, replayed through the public API; every "
            "boolean/rational operation and operator form judged by TraceFA with exact product-reachability "
            "predicates (IsIntersection, IsDifference, IsUnion, IsComplement relative to the own alphabet) and "
            "reference constructions (RevA, ConcatA, StarA) compared by Equiv; algorithm-level TLA+ model of get_intersection "
            "(ProductIntersection) model-checked over every pair of small epsilon-NFAs and iteration order",
            "Exhaustive within small constants over ordered pairs of epsilon-NFAs/NFAs/DFAs (nondeterministic operands, "
            "epsilon moves into final states, several start states, overlapping and disjoint alphabets, state names "
            "colliding across operands, the same object as both operands); each result is decided exactly by TLC.",
            "Trusted: TLC, projection. The reference constructions are themselves model-checked against word-level "
            "definitions (AlgebraOK).", "DESIGN.md section 3 C03"),
    "C06": ("TLA+ API state machine (FAGen) enumerated by TLC, replayed through to_regex() under label permutations "
            "(elimination order follows set order) and hash seeds; the returned expression judged by TraceFA: exact Equiv "
            "of its recorded epsilon-NFA with the source, and accepts() on every word up to length 4 against FASem",
            "Exhaustive within small constants (any start/final sets incl. empty, start=final, several start states, self "
            "loops, epsilon and parallel edges), all label permutations in the thorough tier; each instance settled exactly.",
            "Trusted: TLC, projection. Symbols restricted to alphanumeric strings (the property's plain-token domain).",
            "DESIGN.md section 3 C06"),
    "C08": ("TLA+ grammar generator (CFGGen) enumerated by TLC, every grammar constructed through the public "
            "constructor and probed with contains / in / generate_epsilon on all words up to L plus words with unknown "
            "terminals; answers judged by TraceCFG against the least-fixpoint bounded language of CFGSem",
            "Exhaustive within small constants (all grammars over <=2|3 variables, <=3|4 productions, bodies <=2|3: "
            "epsilon, unit, long, left/right/self recursive productions, useless symbols, start symbol without "
            "productions) under several hash seeds and name pools; the derivability oracle is itself model-checked "
            "against bounded leftmost rewriting (DerivOK).",
            "Trusted: TLC, projection. Membership is compared on all words up to L=4|5 only.", "DESIGN.md section 3 C08"),
    "C09": ("TLA+ grammar generator (CFGGen) enumerated by TLC; remove_useless_symbols / remove_epsilon / "
            "eliminate_unit_productions / to_normal_form replayed on every grammar and judged by TraceCFG: bounded "
            "language equality (least fixpoint, CFGSem) and the shape predicates OnlyUseful / NoEps / NoUnit / IsCNF",
            "Exhaustive within small constants plus directed shapes (unit cycles, nullable chains, long bodies with "
            "shared suffixes, variables named like the CNF helper variables) and a random family; language compared on "
            "all words up to L=4|5, shapes decided exactly.",
            "Trusted: TLC, projection. Language equality bounded by L.", "DESIGN.md section 3 C09"),
    "C10": ("TLA+ grammar generator (CFGGen) enumerated by TLC, paired; union/concatenate/closures/reverse/substitute "
            "and | + ~ replayed and judged by TraceCFG against the word-set algebra (Cat, Star, Rev, substitution "
            "fixpoint) of CFGSem truncated at L",
            "Spec-generated grammars paired with rotating partners and with themselves (same object twice), shared "
            "variable names and look-alikes of the library's fresh names; every result language is compared with the "
            "set-algebraic expectation on all words up to length 4.",
            "Trusted: TLC, projection. Pairs are a sample of the product; language equality bounded by L=4.",
            "DESIGN.md section 3 C10"),
    "C12": ("TLA+ grammar generator (CFGGen) enumerated by TLC; is_empty / is_finite / symbol classes / get_words(n) "
            "replayed and judged by TraceCFG against CFGSem (generating, nullable, reachable fixpoints; growing-cycle "
            "finiteness; bounded language), the oracle itself model-checked (EmptyOK, NullOK, FiniteOK, DerivOK)",
            "Exhaustive within small constants, all bounds n in 0..L and unbounded enumeration on finite languages "
            "(termination by step budget); every answer compared exactly with the set computed by TLC.",
            "Trusted: TLC, projection. get_words compared up to L=4|5.", "DESIGN.md section 3 C12"),
    "C14": ("TLA+ grammar generator (CFGGen) enumerated by TLC and filtered to useless-free grammars; FIRST/FOLLOW, the "
            "LL(1) verdict and the table-driven parser replayed and judged by TraceParse against LL1Sem (textbook "
            "least-fixpoint FIRST/FOLLOW/Predict) and the bounded language of CFGSem",
            "Exhaustive within small constants over useless-free grammars (nullable variables, nullable non-empty bodies, "
            "common prefixes, left recursion) x all words up to length 4; sets compared exactly, the verdict with the "
            "predict-set definition, parse outcomes with membership and the documented exception.",
            "Trusted: TLC, projection. Parse outcomes compared on words up to length 4.", "DESIGN.md section 3 C14"),
    "C15": ("TLA+ grammar generator (CFGGen) enumerated by TLC; the four parsers replayed on members and non-members; "
            "every returned tree and both derivation listings judged by TraceParse with TreeSem (root, every inner node "
            "a production of the recorded grammar / normal form, yield = word; leftmost/rightmost step relation), "
            "refusals compared with the bounded language",
            "Exhaustive within small constants incl. ambiguous grammars, epsilon productions and epsilon subtrees; each "
            "tree is checked structurally and its derivations step by step by TLC; non-members must raise the documented "
            "exception.",
            "Trusted: TLC, projection of ParseTree (value, sons). Recursive descent only inside its termination domain.",
            "DESIGN.md section 3 C15"),
    "C05": ("TLA+ token-string generator (RegexGen) enumerated by TLC, every token string rendered to text in two "
            "spacing styles and given to Regex(); outcome, accepts(), the recorded epsilon-NFA and CFG, str() round trip "
            "and the combinators judged by TraceRegex against the documented grammar as a recursive-descent parser in "
            "TLA+ (RegexSem!Parse), itself model-checked against AST denotations (ASTOK)",
            "Exhaustive within small constants: all token strings up to length 5|6 over several 8-12 token alphabets "
            "(well-formed with minimal or redundant parentheses, and ill-formed), each settled on all words up to length 3; "
            "ill-formed text must raise MisformedRegexError and nothing else.",
            "Trusted: TLC, projections, the renderer. Texts the documentation does not settle are UNSPEC.",
            "DESIGN.md section 3 C05"),
    "C13": ("TLA+ PDA API state machine (PDAGen) and grammar generator enumerated by TLC, replayed through the public API; "
            "to_pda / to_cfg / to_final_state / to_empty_stack judged by TracePDA with PDASem: acceptance by empty stack "
            "and by final state decided exactly by a pop-summary least fixpoint (no stack bound), itself model-checked "
            "against bounded configuration search (SemOK)",
            "Exhaustive within small constants (nondeterministic PDAs with epsilon moves, stack-growing epsilon cycles, "
            "pushes of 0-3 symbols, 0-2 final states, reserved fresh names) plus random PDAs and the C08 grammar family; "
            "every conversion is compared on all words up to L=3|4 with exact PDA acceptance.",
            "Trusted: TLC, projection (start stack symbol through to_networkx). Words up to L.", "DESIGN.md section 3 C13"),
    "C11": ("TLA+ generators (CFGGen, PDAGen, FAGen, RegexGen) enumerated by TLC and paired; cfg.intersection / "
            "pda.intersection replayed with Regex, DFA, NFA and epsilon-NFA operands and judged by TracePDA: bounded "
            "grammar language, exact PDA acceptance by final state (PDASem) and exact automaton acceptance (FASem)",
            "Spec-generated grammars and PDAs paired with a rotating selection of spec-generated regular operands of all "
            "four kinds (deterministic-by-accident NFAs included, partly overlapping alphabets, empty languages, epsilon "
            "on either side); results compared on all words up to length 3; other operand types must raise "
            "NotImplementedError.",
            "Trusted: TLC, projections. Pairs are a sample of the product; words up to length 3.", "DESIGN.md section 3 C11"),
    "C16": ("TLA+ FST API state machine (FSTGen) enumerated by TLC within the property's domain (epsilon cycles write "
            "nothing), replayed through the public API; translate, union, concatenate, kleene_star (and | +) and "
            "FiniteAutomaton.to_fst judged by TraceFST with FSTSem: output sets by closure over configurations and the "
            "relation algebra (all splits / all factorisations of the input word)",
            "Exhaustive within small constants (nondeterministic transducers, several start/final states, epsilon-input "
            "moves and silent epsilon cycles, start states with incoming and final states with outgoing transitions, "
            "operands sharing state names, the same object twice); relations compared on all inputs up to length 3, both "
            "on the recorded structure of the result and on what translate() yields on it.",
            "Trusted: TLC, projection. Input words up to length 3; translate consumed under a budget.", "DESIGN.md section 3 C16"),
    "C17": ("TLA+ indexed-grammar generator (IGGen) enumerated by TLC; is_empty() replayed for permutations of the rule "
            "list x optim 0..8, after remove_useless_rules and for intersections with spec-generated automata; verdicts "
            "and the public `marked` sets judged by TraceIG with IGSem (productive-set transformers, a decision "
            "procedure independent of Aho's marking; product construction for intersections)",
            "Exhaustive within small constants (end, production, consumption and duplication rules; several consumption "
            "rules for one index and variable; recursion through the stack), every permutation (up to a cap) and every "
            "ordering heuristic; each verdict is compared with an exact decision, and every marked set is checked sound.",
            "Trusted: TLC; the oracle is model-checked against the full fixpoint on the 3-rule family (LazyOK).",
            "DESIGN.md section 3 C17"),
    "C18": ("TLA+ generators for feature structures (FSGen) and annotated grammars (FCFGGen) enumerated by TLC; unify on "
            "ordered pairs (both argument orders) and FCFG.contains replayed and judged by TraceFCFG with FSSem "
            "(unification = congruence closure, the greatest lower bound) and with the instantiate-to-CFG oracle over a "
            "finite value domain evaluated by CFGSem",
            "Spec-generated consistently typed structures (atoms, unspecified values, nested structures, shared leaves) "
            "paired by a deterministic sample of the product; spec-generated feature grammars (constants, agreement "
            "variables, epsilon productions, ambiguity, left recursion) and the feature-free family, on all words up to "
            "length 3; success/refusal, the resulting structure and membership are decided exactly by TLC.",
            "Trusted: TLC, projection of feature structures by node identity. Pairs are sampled; words up to length 3.",
            "DESIGN.md section 3 C18"),
    "C19": ("TLA+ API signature state machine (ValueSemantics: queries, conversions, binary operations and mutators over a "
            "typed heap; action properties Frame and Stable checked by TLC) generates call histories - exhaustively to "
            "depth 2|3 and by simulation to depth 10|12; each history is replayed on real long-lived objects and judged "
            "by TraceHist: snapshots of all live objects may change only for the receiver of a mutator, every answer "
            "must equal the answer on freshly rebuilt equal objects and be functional in (value, call)",
            "History-quantified: spec-generated sequences of public calls (repeated calls, conversions of conversions, "
            "the same object as both operands, mutation of returned objects) over twelve root-type pairs.",
            "Trusted: TLC, snapshots/fingerprints of harness/hist.py. Root objects from a small catalogue; histories sampled "
            "beyond depth 2.", "DESIGN.md section 3 C19"),
    "C20": ("TLA+ generators (FAGen, PDAGen, FSTGen, CFGGen, EBNFGen) enumerated by TLC, machines built through the public "
            "API over spelling pools; from_networkx(to_networkx()), CFG.from_text(to_text()) and RecursiveAutomaton."
            "from_ebnf/from_regex replayed and judged by TraceRT: identity of the abstract machine, equal productions and "
            "bounded language (CFGSem), one deterministic box per head accepting the union of the alternatives (RegexSem)",
            "Spec-generated machines (epsilon transitions, several start states, parallel edges, multi-symbol pushes and "
            "outputs) over four spelling pools (ints, '0', blanks, quotes, starting_0, non-ASCII, arrows and slashes inside "
            "names are excluded by the domain guard only where the property excludes them); grammars with VAR:/TER: needs; "
            "EBNF texts over the regex token syntax.",
            "Trusted: TLC, projections. The textual assembling of labels is not modelled; spellings are a finite pool.",
            "DESIGN.md section 3 C20"),
    "C07": ("TLA+ AST generator of the documented Python-regex subset (PyRegexGen: Render and Den in PyRegexSem) enumerated "
            "by TLC; every rendered pattern is given to CPython's re (authoritative) and to PythonRegex, on all strings up "
            "to length 3 over a 7-character printable alphabet; TracePyRegex compares the three answer sets",
            "Exhaustive over the generated AST family (nested groups, quantifiers on groups/sets/escapes, m=0 and m=n "
            "repetitions, metacharacters inside sets, negated sets, shortcuts) plus ill-formed mutations that Python rejects; "
            "the deciding oracle is CPython, the TLA+ denotation is generator and cross-check (a disagreement between them "
            "is reported as machinery failure, not as a violation).",
            "Trusted: CPython re, TLC. The specification contributes the pattern space and a redundant oracle here.",
            "DESIGN.md section 3 C07"),
}

NOT_YET = "check not built yet in this round (see DESIGN.md section 9, build order); no claim is made"


def main():
    props = [json.loads(l)["id"] for l in open(os.path.join(ROOT, "properties.jsonl"))]
    checks = []
    na = []
    for p in props:
        if p in CHECKS and os.path.exists(os.path.join(ROOT, "harness", "drivers", p.lower() + ".py")):
            tech, text, note, ref = CHECKS[p]
            checks.append({
                "property_id": p,
                "quick_cmd": "./check %s --tier quick" % p,
                "thorough_cmd": "./check %s --tier thorough" % p,
                "evidence_file": "/verif/evidence/%s.json" % p,
                "replay_cmd_template": "./check %s --replay {path}" % p,
                "engine": "tla-trace",
                "level_claimed": {"category": "model_checking", "text": text, "design_ref": ref},
                "level_note": note,
                "technique": tech,
            })
        else:
            na.append({"property_id": p, "reason": NOT_YET})
    man = {
        "version": 1,
        "setup_cmd": "./setup.sh",
        "hooks": {
            "guard": "PYFORMLANG_VERIF",
            "enable": "no source hook: the recorder wraps public methods from /verif (harness/) only when "
                      "PYFORMLANG_VERIF=1 is set by the checks; /repo is imported from its working tree by /venv/bin/python",
            "baseline_off_cmd": "cd /repo && env -u PYFORMLANG_VERIF /venv/bin/python -m pytest -ra -q -p no:cacheprovider "
                                "--timeout=900 --continue-on-collection-errors",
            "source_commits": [],
            "add_only": True,
        },
        "engines": [{
            "name": "tla-trace",
            "path": "/verif/check",
            "serves_properties": [c["property_id"] for c in checks],
            "kind_free_text": "TLA+ specification (spec/) model-checked by TLC; TLC-generated states/behaviours replayed "
                              "through pyformlang's public API; recorded calls validated by TLA+ trace specifications",
        }],
        "checks": checks,
        "notes": "All checks: ./check <id> --tier quick|thorough [--replay file]; exit 0 held, 1 VIOLATION, 2 machinery failure. "
                 "known_findings.json lists recorded genuine defects (KNOWN-FINDING lines).",
        "not_applicable": na,
    }
    with open(os.path.join(ROOT, "MANIFEST.json"), "w") as f:
        json.dump(man, f, indent=1)
    try:
        import jsonschema
        jsonschema.validate(man, json.load(open("/root/.vp/MANIFEST.schema.json")))
        print("MANIFEST.json valid:", len(checks), "checks,", len(na), "not_applicable")
    except ImportError:
        print("jsonschema not available; written without validation")


if __name__ == "__main__":
    sys.exit(main())
