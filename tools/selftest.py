#!/venv/bin/python
"""Binding self-test: a corrupted log is rejected, an intact one accepted (DESIGN.md section 7).
1. replay three generated automata on the real library, judge with TraceFA -> no failed clause;
2. flip one recorded answer (add a word to `acc`) -> TraceFA reports clause Accepts for exactly that event;
3. swap the recorded result of to_deterministic for another automaton -> clause to_deterministic.lang;
4. drop a field the specification needs -> the log cannot be consumed -> machinery failure (never a verdict)."""
import copy
import os
import shutil
import sys

sys.path.insert(0, os.path.dirname(os.path.dirname(os.path.abspath(__file__))))
from harness import core          # noqa: E402
from harness.drivers import c01   # noqa: E402


def main():
    work = os.path.join(core.WORK, "selftest-%d" % os.getpid())
    shutil.rmtree(work, ignore_errors=True)
    os.makedirs(work)
    try:
        cases = [dict(kind="enfa", calls=[["add_transition", "q0", "a", "q1"], ["add_transition", "q1", "eps", "q0"],
                                          ["add_start_state", "q0"], ["add_final_state", "q1"]], spool="int", ypool="ab", perm=None, cid="c0"),
                 dict(kind="dfa", calls=[["add_transition", "q0", "b", "q0"], ["add_start_state", "q0"], ["add_final_state", "q0"]],
                      spool="str", ypool="ab", perm=None, cid="c1")]
        events = core.replay_pool("c01", cases, os.path.join(work, "r"))
        v, _ = core.judge("TraceFA", events, os.path.join(work, "j0"))
        assert v == {}, v
        print("1. intact log: accepted, %d events, no failed clause" % len(events))
        bad = copy.deepcopy(events)
        acc = next(e for e in bad if e["op"] == "accepts" and e["cid"] == "c0")
        acc["acc"].append(["s:b", "s:b", "s:b"])
        v, _ = core.judge("TraceFA", bad, os.path.join(work, "j1"))
        assert list(v) == [acc["id"]] and v[acc["id"]] == [("Accepts", "FAIL")], v
        print("2. one flipped answer: rejected, event %s clause Accepts" % acc["id"])
        bad = copy.deepcopy(events)
        det = next(e for e in bad if e["op"] == "to_deterministic" and e["cid"] == "c0")
        other = next(e for e in bad if e["op"] == "to_deterministic" and e["cid"] == "c1")
        det["R"] = other["R"]
        v, _ = core.judge("TraceFA", bad, os.path.join(work, "j2"))
        assert ("to_deterministic.lang", "FAIL") in v.get(det["id"], []), v
        print("3. swapped result: rejected, event %s clause to_deterministic.lang" % det["id"])
        bad = copy.deepcopy(events)
        del bad[1]["A"]
        try:
            core.judge("TraceFA", bad, os.path.join(work, "j3"))
            print("4. FAILED: a log with a missing field was accepted")
            return 1
        except core.Machinery:
            print("4. missing field: the log is not consumed -> machinery failure (exit 2), not a verdict")
        # 5. the text syntax of feature structures (clause from_text.state of TraceFCFG)
        h = [["node", ["h"]], ["leaf", ["h", "f"], "1"], ["share", ["g"], ["h", "f"]]]
        fev = core.replay_pool("c18", [dict(kind="unify", ha=h, hb=h, family="selftest", cid="f0")], os.path.join(work, "r5"))
        v, _ = core.judge("TraceFCFG", fev, os.path.join(work, "j5"))
        assert v == {}, v
        bad = copy.deepcopy(fev)
        ft = next(e for e in bad if e["op"] == "fs_from_text")
        ft["F"]["same"] = [p for p in ft["F"]["same"] if p[0] == p[1]]      # the tag "(1)" forgotten outside the bracket
        v, _ = core.judge("TraceFCFG", bad, os.path.join(work, "j6"))
        assert v.get(ft["id"]) == [("from_text.state", "FAIL")], v
        print("5. from_text event %r: intact accepted, sharing removed from the record -> clause from_text.state" % ft["text"])
        print("selftest ok")
        return 0
    finally:
        shutil.rmtree(work, ignore_errors=True)


if __name__ == "__main__":
    sys.exit(main())
