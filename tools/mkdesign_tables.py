#!/usr/bin/env python3
"""Fill the generated tables of DESIGN.md (between the FINDINGS-TABLE and SEEDED-TABLE markers)."""
import glob
import json
import os
import re

ROOT = os.path.dirname(os.path.dirname(os.path.abspath(__file__)))


def findings_table():
    d = json.load(open(os.path.join(ROOT, "known_findings.json")))
    rows = ["| id | property | commit | check clause that reported it | site | witness |", "|---|---|---|---|---|---|"]
    for f in d["findings"]:
        if f["status"] != "fixed":
            continue
        rows.append("| %s | %s | %s | %s | %s | %s |" % (f["id"], f["property"], f.get("commit", ""), f.get("clause", ""),
                                                      f.get("site", "").replace("|", "\\|"), f.get("witness", "").replace("|", "\\|")))
    return "\n".join(rows)


def seeded_table():
    rows = ["| seeded change | what it needs to manifest (author's notes, abridged) | caught by | how |", "|---|---|---|---|"]
    for m in sorted(glob.glob(os.path.join(ROOT, "seeded", "*", "meta.json"))):
        d = json.load(open(m))
        name = os.path.basename(os.path.dirname(m))
        needs = " ".join((d.get("needs") or "").split())[:260].replace("|", "\\|")
        det = ", ".join(d.get("detected_by", [])) or "**not caught**"
        if d.get("outside_domain"):
            det = "not claimed: " + d["outside_domain"][:110]
        if d.get("obsolete"):
            det = "obsolete on the current tree (" + d["obsolete"].split(": ", 1)[-1][:90] + "); caught when delivered: " + \
                (", ".join((d.get("first_run") or {}).get("detected_by") or d.get("detected_by") or []) or "after strengthening")
        how = "; ".join(sorted({re.sub(r"replay=\S+ ", "", l)[:90] for c in d.get("checks", {}).values() for l in c.get("lines", []) if l.startswith("VIOLATION")}))[:300]
        rows.append("| %s | %s | %s | %s |" % (name, needs, det, how.replace("|", "\\|")))
    return "\n".join(rows)


def main():
    p = os.path.join(ROOT, "DESIGN.md")
    s = open(p).read()
    for tag, fn in (("FINDINGS-TABLE", findings_table), ("SEEDED-TABLE", seeded_table)):
        s = re.sub(r"<!-- %s -->.*?<!-- /%s -->" % (tag, tag), lambda m: "<!-- %s -->\n%s\n<!-- /%s -->" % (tag, fn(), tag), s, flags=re.S)
    open(p, "w").write(s)


if __name__ == "__main__":
    main()
