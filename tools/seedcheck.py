#!/venv/bin/python
"""Confirm a seeded change delivered by a sub-agent and run the checks against it.

usage: tools/seedcheck.py <property> <k> [--checks C01,C02] [--tier quick]
reads  /tmp/mut-out/<property>/patch<k>.diff, demo<k>.py, notes<k>.md
1. in the scratch worktree /tmp/mut-<property> (clean): the patch applies, the unedited suite passes with it,
   the demonstration fails with it and passes without it;
2. applies the patch to /repo, runs ./check for the listed properties, undoes it (git checkout -- .);
3. stores everything under /verif/seeded/<property>-<k>/ (patch.diff, demo.py, notes.md, meta.json).
"""
import argparse
import json
import os
import re
import shutil
import subprocess
import sys
import time

ROOT = os.path.dirname(os.path.dirname(os.path.abspath(__file__)))


def sh(cmd, cwd=None, env=None, timeout=3600):
    e = dict(os.environ)
    if env:
        e.update(env)
    p = subprocess.run(cmd, shell=True, cwd=cwd, env=e, stdout=subprocess.PIPE, stderr=subprocess.STDOUT, text=True, timeout=timeout)
    return p.returncode, p.stdout


def main():
    ap = argparse.ArgumentParser()
    ap.add_argument("prop")
    ap.add_argument("k")
    ap.add_argument("--checks")
    ap.add_argument("--tier", default="quick")
    ap.add_argument("--skip-confirm", action="store_true")
    ap.add_argument("--round", default="1")
    ap.add_argument("--scratch", action="store_true",
                    help="apply the change in a scratch worktree of /repo's HEAD and point the checks at it (VERIF_REPO) "
                         "instead of applying it to /repo: for use while /repo is busy; same checks, same code")
    a = ap.parse_args()
    if a.round == "1":
        src, wt = "/tmp/mut-out/%s" % a.prop, "/tmp/mut-%s" % a.prop
    else:
        src, wt = "/tmp/mut-out%s/%s" % (a.round, a.prop), "/tmp/mut%s-%s" % (a.round, a.prop)
    patch = os.path.join(src, "patch%s.diff" % a.k)
    demo = os.path.join(src, "demo%s.py" % a.k)
    notes = os.path.join(src, "notes%s.md" % a.k)
    out = os.path.join(ROOT, "seeded", "%s-%s" % (a.prop, a.k) if a.round == "1" else "%s-r%s-%s" % (a.prop, a.round, a.k))
    os.makedirs(out, exist_ok=True)
    meta = {"property": a.prop, "patch": "patch.diff", "demonstration": "demo.py", "confirmed": {}, "checks": {}}
    old = None
    if os.path.exists(os.path.join(out, "meta.json")):
        old = json.load(open(os.path.join(out, "meta.json")))
        if a.skip_confirm:
            meta["confirmed"] = old.get("confirmed", {})
        # the first evaluation is kept: it records what the checks did before any strengthening
        meta["first_run"] = old.get("first_run") or {"checks": old.get("checks", {}), "detected_by": old.get("detected_by", [])}
    if not a.skip_confirm:
        sh("git checkout -- . && git clean -fdq", cwd=wt)
        rc, o = sh("git apply --check %s" % patch, cwd=wt)
        meta["confirmed"]["applies_to_clean_checkout"] = rc == 0
        if rc != 0:
            print("patch does not apply:", o)
            return 2
        rc0, o0 = sh("PYTHONPATH=%s /venv/bin/python %s" % (wt, demo), cwd="/tmp")
        sh("git apply %s" % patch, cwd=wt)
        rc1, o1 = sh("PYTHONPATH=%s /venv/bin/python %s" % (wt, demo), cwd="/tmp")
        rct, ot = sh("PYTHONPATH=%s /venv/bin/python -m pytest -q -p no:cacheprovider pyformlang 2>&1 | tail -3" % wt, cwd=wt)
        sh("git checkout -- . && git clean -fdq", cwd=wt)
        m = re.search(r"(\d+) passed", ot)
        meta["confirmed"].update(demo_exit_without_change=rc0, demo_exit_with_change=rc1,
                                 tests_with_change=ot.strip().splitlines()[-1] if ot.strip() else "",
                                 suite_green=bool(m and int(m.group(1)) == 289 and "failed" not in ot))
        ok = rc0 == 0 and rc1 != 0 and meta["confirmed"]["suite_green"]
        meta["confirmed"]["ok"] = ok
        print("confirm:", meta["confirmed"])
        if not ok:
            with open(os.path.join(out, "meta.json"), "w") as f:
                json.dump(meta, f, indent=1)
            return 3
    shutil.copy(patch, os.path.join(out, "patch.diff"))
    shutil.copy(demo, os.path.join(out, "demo.py"))
    if os.path.exists(notes):
        shutil.copy(notes, os.path.join(out, "notes.md"))
        meta["needs"] = open(notes).read()[:1500]
    checks = (a.checks or a.prop).split(",")
    target, env = "/repo", None
    if a.scratch:
        target = "/tmp/seedwt-%d" % os.getpid()
        rc, o = sh("git worktree add --detach %s HEAD" % target, cwd="/repo")
        if rc != 0:
            print("cannot create scratch worktree:", o)
            return 2
        env = {"VERIF_REPO": target}
    rc, o = sh("git status --porcelain", cwd=target)
    if o.strip():
        print("%s is not clean, refusing" % target)
        return 2
    rc, o = sh("git apply %s" % patch, cwd=target)
    if rc != 0:
        print("cannot apply to %s:" % target, o)
        if a.scratch:
            sh("git worktree remove --force %s" % target, cwd="/repo")
        return 2
    try:
        for c in checks:
            t0 = time.time()
            rc, o = sh("./check %s --tier %s" % (c, a.tier), cwd=ROOT, env=env, timeout=7200)
            lines = [l for l in o.splitlines() if l.startswith(("VIOLATION", "MACHINERY", "KNOWN-FINDING"))]
            meta["checks"][c] = dict(tier=a.tier, exit=rc, wall_s=round(time.time() - t0, 1), lines=lines[:12],
                                     detected=(rc == 1 and any(l.startswith("VIOLATION") for l in lines)))
            print(c, "exit", rc, "detected" if meta["checks"][c]["detected"] else "NOT detected", "%.0fs" % (time.time() - t0))
            for l in lines[:6]:
                print("   ", l[:200])
    finally:
        if a.scratch:
            sh("git worktree remove --force %s" % target, cwd="/repo")
        else:
            sh("git checkout -- .", cwd="/repo")
    meta["ran"] = "tools/seedcheck.py %s %s --round %s --checks %s --tier %s%s" % (a.prop, a.k, a.round, ",".join(checks), a.tier,
                                                                                " --scratch" if a.scratch else "")
    meta["detected_by"] = [c for c, v in meta["checks"].items() if v["detected"]]
    with open(os.path.join(out, "meta.json"), "w") as f:
        json.dump(meta, f, indent=1)
    return 0


if __name__ == "__main__":
    sys.exit(main())
