#!/bin/sh
# Offline setup: nothing to build. Verifies that the tools the checks need are present.
set -e
cd "$(dirname "$0")"
test -x /venv/bin/python
java -version >/dev/null 2>&1
test -f /opt/veriftools/tla/tla2tools.jar
/venv/bin/python -c "import pyformlang, networkx"
mkdir -p .work evidence replays
echo "setup ok"
