------------------------------- MODULE TraceFCFG -------------------------------
(* Trace specification for feature structures and feature grammars (C18). *)
EXTENDS FSSem, Json, IOUtils, TLCExt
CF == INSTANCE CFGSem

Log == ndJsonDeserialize(IOEnv.TRACE_FILE)
VARIABLES l, out
Has(e, k) == k \in DOMAIN e
Fl(c) == {<<c, "FAIL">>}
Chk(ok, c) == IF ok THEN {} ELSE Fl(c)
SameFS(X, Y) == X.paths = Y.paths /\ X.atoms = Y.atoms /\ X.same = Y.same

JBuild(e) == LET n == Norm(Fs(e.spec)) p == Fs(e.F) IN Chk(SameFS(n, p), "Build.state")
(* the same structure written in the text syntax of FeatureStructure.from_text (co-indexing tags "(n)" for the shared
   nodes, the content at the first occurrence of a tag): parsing must give the structure the history describes *)
JFromText(e) == IF Has(e, "exc") THEN Fl("from_text.noexc")
                ELSE Chk(SameFS(Norm(Fs(e.spec)), Fs(e.F)), "from_text.state")
(* e.res = "ok" | exception name; e.R = receiver after the call; e.res2/e.R2 = the call with the
   arguments swapped, on fresh copies *)
JUnify(e) ==
  LET F == Fs(e.F) G == Fs(e.G) u == Unify(F, G) IN
  IF u.ok THEN Chk(e.res = "ok", "unify.succeeds")
               \* the public accessor get_feature_by_path must see what the structure holds (recorded by the harness)
               \cup (IF Has(e, "R") /\ Has(e.R, "accbad") THEN Fl("unify.accessor") ELSE {})
               \cup (IF Has(e, "R2") /\ Has(e.R2, "accbad") THEN Fl("unify.symmetric.accessor") ELSE {})
               \cup (IF e.res = "ok" THEN Chk(SameFS(Fs(e.R), [paths |-> u.paths, atoms |-> u.atoms, same |-> u.same]), "unify.glb") ELSE {})
               \cup Chk(e.res2 = "ok", "unify.symmetric.succeeds")
               \cup (IF e.res2 = "ok" THEN Chk(SameFS(Fs(e.R2), [paths |-> u.paths, atoms |-> u.atoms, same |-> u.same]), "unify.symmetric.glb") ELSE {})
  ELSE Chk(e.res = "FeatureStructuresNotCompatibleException", "unify.refuses")
       \cup Chk(e.res2 = "FeatureStructuresNotCompatibleException", "unify.symmetric.refuses")

(* ---- feature grammars: instantiate every annotation slot over Dom ---- *)
Dom(e) == ToSet(e.dom)
AnnChoices(e, ann, xv) == IF ann = "-" THEN Dom(e) ELSE IF ann = "x" THEN {xv} ELSE {ann}
RECURSIVE BodyInst(_,_,_,_,_,_)
BodyInst(e, Vs, body, anns, xv, i) ==
  IF i > Len(body) THEN {<<>>}
  ELSE LET rest == BodyInst(e, Vs, body, anns, xv, i + 1) IN
       IF body[i] \in Vs THEN { <<body[i] \o "#" \o v>> \o r : v \in AnnChoices(e, anns[i], xv), r \in rest }
       ELSE { <<body[i]>> \o r : r \in rest }
Inst(e, Vs, p) == UNION { { <<p[1] \o "#" \o hv, b>> : hv \in AnnChoices(e, p[2], xv), b \in BodyInst(e, Vs, p[3], p[4], xv, 1) } : xv \in Dom(e) }
InstGrammar(e) ==
  LET P == ToSet(e.prods)
      Vs == ToSet(e.vars)
      IP == UNION { Inst(e, Vs, p) : p \in P } \cup { <<"#S0", <<e.start \o "#" \o v>>>> : v \in Dom(e) }
      AV == { p[1] : p \in IP } \cup { x \o "#" \o v : x \in Vs, v \in Dom(e) } \cup {"#S0"}
  IN [start |-> "#S0", vars |-> AV, allv |-> AV, terms |-> ToSet(e.terms), prods |-> IP]
(* ---- two features (n, m) and two agreement variables (x, y) per production: an annotation is a pair <<an, am>>, each
   component "-" | constant | "x" | "y"; an instantiated variable is  name # vn . vm *)
Ch2(e, a, xv, yv) == IF a = "-" THEN Dom(e) ELSE IF a = "x" THEN {xv} ELSE IF a = "y" THEN {yv} ELSE {a}
AnnChoices2(e, ann, xv, yv) == { a \o "." \o b : a \in Ch2(e, ann[1], xv, yv), b \in Ch2(e, ann[2], xv, yv) }
RECURSIVE BodyInst2(_,_,_,_,_,_,_)
BodyInst2(e, Vs, body, anns, xv, yv, i) ==
  IF i > Len(body) THEN {<<>>}
  ELSE LET rest == BodyInst2(e, Vs, body, anns, xv, yv, i + 1) IN
       IF body[i] \in Vs THEN { <<body[i] \o "#" \o v>> \o r : v \in AnnChoices2(e, anns[i], xv, yv), r \in rest }
       ELSE { <<body[i]>> \o r : r \in rest }
Inst2(e, Vs, p) == UNION { { <<p[1] \o "#" \o hv, b>> : hv \in AnnChoices2(e, p[2], xv, yv), b \in BodyInst2(e, Vs, p[3], p[4], xv, yv, 1) }
                           : xv \in Dom(e), yv \in Dom(e) }
Pairs(e) == { a \o "." \o b : a \in Dom(e), b \in Dom(e) }
InstGrammar2(e) ==
  LET P == ToSet(e.prods)
      Vs == ToSet(e.vars)
      IP == UNION { Inst2(e, Vs, p) : p \in P } \cup { <<"#S0", <<e.start \o "#" \o v>>>> : v \in Pairs(e) }
      AV == { p[1] : p \in IP } \cup { x \o "#" \o v : x \in Vs, v \in Pairs(e) } \cup {"#S0"}
  IN [start |-> "#S0", vars |-> AV, allv |-> AV, terms |-> ToSet(e.terms), prods |-> IP]
JContains2(e) ==
  IF Has(e, "exc") THEN Fl("fcfg_contains.noexc")
  ELSE LET LG == CF!Lang(InstGrammar2(e), e.L) acc == ToSet(e.acc) IN
       Chk(\A i \in DOMAIN e.words : (e.words[i] \in acc) => (e.words[i] \in LG), "fcfg_contains.sound")
       \cup Chk(\A i \in DOMAIN e.words : (e.words[i] \in LG) => (e.words[i] \in acc), "fcfg_contains.complete")
JContains(e) ==
  IF Has(e, "exc") THEN Fl("fcfg_contains.noexc")
  ELSE LET LG == CF!Lang(InstGrammar(e), e.L) acc == ToSet(e.acc) IN
       Chk(\A i \in DOMAIN e.words : (e.words[i] \in acc) => (e.words[i] \in LG), "fcfg_contains.sound")
       \cup Chk(\A i \in DOMAIN e.words : (e.words[i] \in LG) => (e.words[i] \in acc), "fcfg_contains.complete")
       \cup (IF Has(e, "cfgacc") THEN Chk(ToSet(e.cfgacc) = acc, "fcfg_contains.agrees_with_cfg") ELSE {})
Judge(e) ==
  CASE e.op = "fs_build" -> JBuild(e)
    [] e.op = "fs_from_text" -> JFromText(e)
    [] e.op = "unify" -> JUnify(e)
    [] e.op = "fcfg_contains" -> JContains(e)
    [] e.op = "fcfg_contains2" -> JContains2(e)
    [] OTHER -> Fl("unknown-op")

Init == l = 1 /\ out = {}
Next == /\ l <= Len(Log) /\ l' = l + 1
        /\ out' = out \cup { <<Log[l].id, v[1], v[2]>> : v \in Judge(Log[l]) }
Spec == Init /\ [][Next]_<<l, out>>
Done == (l = Len(Log) + 1) => JsonSerialize(IOEnv.OUT_FILE, SetToSeq(out))
Post == TLCGet("stats").diameter = Len(Log) + 1
=============================================================================
