------------------------------- MODULE TraceHopcroft -------------------------------
(* Step-level trace specification for Hopcroft refinement (C02): the states of the real
   _get_partition run, recorded at every pop of the processing list, must be a behaviour of
   Hopcroft.tla: the first recorded state is InitState and each following one is PopResult of its
   predecessor; the final partition is the Nerode partition of the completed automaton. *)
EXTENDS HopcroftOps, Json, IOUtils, TLCExt
Log == ndJsonDeserialize(IOEnv.TRACE_FILE)
VARIABLES l, out
(* step-level deviations are ADVISORY: a different but correct refinement strategy is not a violation of
   C02 (the API-level clauses of TraceFA decide the property); they localise a defect and show drift
   between pyformlang's algorithm and its specification in spec/algo *)
Fl(c) == {<<c, "ADVISORY">>}
Chk(ok, c) == IF ok THEN {} ELSE Fl(c)
St(j) == << [i \in DOMAIN j.part |-> ToSet(j.part[i])], j.plist, ToSet(j.incl) >>
Judge(e) ==
  LET qt == 0..e.n
      so == e.symorder
      dl == [x \in qt \X ToSet(so) |-> e.delta[x[1] + 1][CHOOSE k \in DOMAIN so : so[k] = x[2]]]
      fin == ToSet(e.finals)
      steps == e.steps
      nsteps == Len(steps)
      last == St(steps[nsteps])
      D(q, a) == dl[<<q, a>>]
      RECURSIVE MooreF(_)
      MooreF(E) == LET E2 == { p \in E : \A a \in ToSet(so) : <<D(p[1], a), D(p[2], a)>> \in E } IN IF E2 = E THEN E ELSE MooreF(E2)
      Ner == MooreF({ p \in qt \X qt : (p[1] \in fin) <=> (p[2] \in fin) })
      Cls(P, q) == CHOOSE i \in DOMAIN P : q \in P[i]
  IN Chk(St(steps[1]) = InitState(qt, so, fin), "hopcroft.init")
     \cup Chk(\A k \in 1..(nsteps - 1) : St(steps[k])[2] # <<>> /\ St(steps[k + 1]) = PopResult(dl, qt, so, St(steps[k])[1], St(steps[k])[2], St(steps[k])[3]), "hopcroft.step")
     \cup Chk(last[2] = <<>>, "hopcroft.terminates_with_empty_list")
     \cup Chk(\A p, q \in qt : (<<p, q>> \in Ner) <=> (Cls(last[1], p) = Cls(last[1], q)), "hopcroft.result_is_nerode")
Init == l = 1 /\ out = {}
Next == /\ l <= Len(Log) /\ l' = l + 1
        /\ out' = out \cup { <<Log[l].id, v[1], v[2]>> : v \in Judge(Log[l]) }
Spec == Init /\ [][Next]_<<l, out>>
Done == (l = Len(Log) + 1) => JsonSerialize(IOEnv.OUT_FILE, SetToSeq(out))
Post == TLCGet("stats").diameter = Len(Log) + 1
=============================================================================
