------------------------------- MODULE TracePyRegex -------------------------------
(* Trace specification for PythonRegex (C07).  Each event carries a pattern rendered by TLC from an
   AST of the documented subset, its denotation Den (computed by TLC in the generator run), what
   CPython's re says (compile outcome and the strings of Sigma^<=L that fullmatch) and what
   PythonRegex says.  CPython is the authoritative oracle: a disagreement between Den and CPython
   is a defect of the specification (kind SPECDEFECT, a machinery failure), never a violation. *)
EXTENDS Naturals, Sequences, FiniteSets, SequencesExt, TLC, Json, IOUtils, TLCExt
Log == ndJsonDeserialize(IOEnv.TRACE_FILE)
VARIABLES l, out
Judge(e) ==
  LET den == ToSet(e.den) py == ToSet(e.re) pf == ToSet(e.acc) IN
  (IF e.re_outcome = "ok" /\ den # py THEN {<<"Den.matches_cpython", "SPECDEFECT">>} ELSE {})
  \cup (IF e.re_outcome # "ok" THEN (IF e.py_outcome = "ok" THEN {<<"PythonRegex.rejects", "FAIL">>} ELSE {})
        ELSE IF e.py_outcome # "ok" THEN {<<"PythonRegex.compiles", "FAIL">>}
        ELSE (IF pf \subseteq py THEN {} ELSE {<<"PythonRegex.accepts.sound", "FAIL">>})
             \cup (IF py \subseteq pf THEN {} ELSE {<<"PythonRegex.accepts.complete", "FAIL">>}))
Init == l = 1 /\ out = {}
Next == /\ l <= Len(Log) /\ l' = l + 1
        /\ out' = out \cup { <<Log[l].id, v[1], v[2]>> : v \in Judge(Log[l]) }
Spec == Init /\ [][Next]_<<l, out>>
Done == (l = Len(Log) + 1) => JsonSerialize(IOEnv.OUT_FILE, SetToSeq(out))
Post == TLCGet("stats").diameter = Len(Log) + 1
=============================================================================
