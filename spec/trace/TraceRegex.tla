------------------------------- MODULE TraceRegex -------------------------------
(* Trace specification for Regex (C05): the outcome of Regex(text), accepts(), the recorded
   epsilon-NFA and CFG of the regex, str() round trip and the combinators are judged against the
   documented grammar (RegexSem!Parse on the token sequence the text was rendered from). *)
EXTENDS RegexSem, SequencesExt, Json, IOUtils, TLCExt
FA == INSTANCE FASem
CF == INSTANCE CFGSem

Log == ndJsonDeserialize(IOEnv.TRACE_FILE)
VARIABLES l, out
Has(e, k) == k \in DOMAIN e
Fl(c) == {<<c, "FAIL">>}
U(c) == {<<c, "UNSPEC">>}
Chk(ok, c) == IF ok THEN {} ELSE Fl(c)
Strip(w) == [i \in DOMAIN w |-> SubSeq(w[i], 3, Len(w[i]))]     \* "T:s:a" -> "s:a"

JRegex(e) ==
  LET p == Parse(e.toks, e.L)
      alph == ToSet(e.alph)
  IN IF p.class = "UNSPEC" THEN (IF e.outcome \in {"ok", "MisformedRegexError"} THEN U("Regex.new") ELSE Fl("Regex.new.exception"))
     ELSE IF p.class = "IF" THEN Chk(e.outcome = "MisformedRegexError", "Regex.refuses")
     ELSE IF e.outcome # "ok" THEN Fl("Regex.accepts_wellformed")
     ELSE Chk(ToSet(e.acc) = p.lang, "Regex.accepts")
          \cup (IF Has(e, "R") THEN Chk(FA!Lang(FA!Aut(e.R), alph, e.L) = p.lang, "Regex.to_epsilon_nfa") ELSE Fl("Regex.to_epsilon_nfa.noexc"))
          \cup (IF Has(e, "G") THEN Chk({ Strip(w) : w \in CF!Lang(CF!Gram(e.G), e.L) } = p.lang, "Regex.to_cfg") ELSE Fl("Regex.to_cfg.noexc"))
          \cup (IF Has(e, "stracc") THEN Chk(ToSet(e.stracc) = p.lang, "Regex.str_roundtrip") ELSE Fl("Regex.str_roundtrip.noexc"))
(* to_cfg asked again on the same object, with another starting symbol: the grammar of the same language *)
JCfgAgain(e) ==
  LET p == Parse(e.toks, e.L) IN
  IF p.class # "WF" THEN U("Regex.to_cfg")
  ELSE IF Has(e, "G") THEN Chk({ Strip(w) : w \in CF!Lang(CF!Gram(e.G), e.L) } = p.lang, "Regex.to_cfg") ELSE Fl("Regex.to_cfg.noexc")
(* An operand whose text the documentation does not settle (the empty text, "()", "a|": class UNSPEC) is taken with the
   language the operand itself was observed to have (accA / accB): whichever reading the library gives it, the
   combination must be built from that same reading. *)
JComb(e) ==
  LET pa == Parse(e.toksA, e.L)
      pb == IF Has(e, "toksB") THEN Parse(e.toksB, e.L) ELSE pa
      la == IF pa.class = "WF" THEN pa.lang ELSE ToSet(e.accA)
      lb == IF pb.class = "WF" THEN pb.lang ELSE ToSet(e.accB)
  IN IF pa.class = "IF" \/ pb.class = "IF" THEN U(e.op)
     ELSE IF Has(e, "exc") THEN (IF pa.class = "WF" /\ pb.class = "WF" THEN Fl(e.op \o ".noexc") ELSE U(e.op))
     ELSE LET expect == CASE e.op \in {"regex_union", "regex_or"} -> la \cup lb
                          [] e.op \in {"regex_concatenate", "regex_add"} -> RCat(la, lb, e.L)
                          [] e.op = "regex_kleene_star" -> RStar(la, e.L)
          IN Chk(ToSet(e.acc) = expect, e.op)
             \cup Chk(ToSet(e.accA) = la /\ ToSet(e.accB) = lb, e.op \o ".operands_unchanged")
Judge(e) ==
  CASE e.op = "regex" -> JRegex(e)
    [] e.op = "regex_cfg_again" -> JCfgAgain(e)
    [] e.op \in {"regex_union", "regex_or", "regex_concatenate", "regex_add", "regex_kleene_star"} -> JComb(e)
    [] OTHER -> Fl("unknown-op")

Init == l = 1 /\ out = {}
Next == /\ l <= Len(Log) /\ l' = l + 1
        /\ out' = out \cup { <<Log[l].id, v[1], v[2]>> : v \in Judge(Log[l]) }
Spec == Init /\ [][Next]_<<l, out>>
Done == (l = Len(Log) + 1) => JsonSerialize(IOEnv.OUT_FILE, SetToSeq(out))
Post == TLCGet("stats").diameter = Len(Log) + 1
=============================================================================
