------------------------------- MODULE TraceFA -------------------------------
(* Trace specification for finite automata: consumes the NDJSON log of public calls made on the
   real library (operands and results projected to abstract automata) and evaluates, for every
   call, the contract of the corresponding API action with the reference semantics FASem.
   Verdicts are total: a failed clause is recorded in `out` and validation goes on. *)
EXTENDS FAObj, Json, IOUtils, TLCExt

Log == ndJsonDeserialize(IOEnv.TRACE_FILE)
VARIABLES l, out
Has(e, k) == k \in DOMAIN e
F(c) == {<<c, "FAIL">>}
U(c) == {<<c, "UNSPEC">>}
Chk(ok, c) == IF ok THEN {} ELSE F(c)

Calls(e) == e.calls      \* sequence of sequences (JSON arrays)

(* ---- C01 / C04 queries ---- *)
JAccepts(e) == LET A == Aut(e.A) acc == ToSet(e.acc) IN
   IF Has(e, "exc") THEN F("Accepts.noexc") ELSE
   Chk(\A i \in DOMAIN e.words : (e.words[i] \in acc) <=> Accepts(A, e.words[i]), "Accepts")
JBuild(e) == LET A == Fold(e.kind, EmptyAut, e.calls, 1) IN
   Chk(A = Aut(e.A), "Build.state") \cup Chk(Outcomes(e.kind, EmptyAut, e.calls, 1) = e.outs, "Build.outcomes")
JBool(e, v, c) == IF Has(e, "exc") THEN F(c \o ".noexc") ELSE Chk(e.res = v, c)

(* ---- conversions that must preserve the language ---- *)
JConv(e, needDet, needEpsFree) ==
  IF Has(e, "exc") THEN F(e.op \o ".noexc")
  ELSE LET A == Aut(e.A) R == Aut(e.R) IN
       Chk(Equiv(A, R), e.op \o ".lang")
       \cup Chk(~needDet \/ IsDet(R), e.op \o ".det")
       \cup Chk(~needEpsFree \/ EpsFree(R), e.op \o ".epsfree")
JMinimize(e) ==
  IF Has(e, "exc") THEN F("minimize.noexc")
  ELSE LET A == Aut(e.A) R == Aut(e.R) IN
       Chk(Equiv(A, R), "minimize.lang") \cup Chk(IsDet(R) /\ EpsFree(R), "minimize.det")
       \cup Chk(AllReachable(R), "minimize.reachable") \cup Chk(Distinguishable(R), "minimize.distinguishable")

(* ---- C02: equivalence verdicts, canonical minimal automata ---- *)
JEquiv(e) == IF Has(e, "exc") THEN F(e.op \o ".noexc")
             ELSE Chk(e.res = Equiv(Aut(e.A), Aut(e.B)), e.op)
JCanon(e) == LET A == Aut(e.A) B == Aut(e.B) IN
   IF Has(e, "exc") THEN F("canonical.noexc")
   ELSE IF ~Equiv(A, B) THEN U("canonical")
   ELSE Chk(Iso(Aut(e.MA), Aut(e.MB)), "canonical")

(* ---- C03: boolean and rational operations ---- *)
JBinop(e) ==
  IF Has(e, "exc") THEN F(e.op \o ".noexc")
  ELSE LET A == Aut(e.A) B == Aut(e.B) R == Aut(e.R) IN
    CASE e.op \in {"get_intersection", "and"} -> Chk(IsIntersection(A, B, R), e.op)
      [] e.op \in {"get_difference", "sub"}   -> Chk(IsDifference(A, B, R), e.op)
      [] e.op \in {"union", "or"}             -> Chk(IsUnion(A, B, R), e.op)
      [] e.op \in {"concatenate", "add"}      -> Chk(Equiv(R, ConcatA(A, B)), e.op)
JUnop(e) ==
  IF Has(e, "exc") THEN F(e.op \o ".noexc")
  ELSE LET A == Aut(e.A) R == Aut(e.R) IN
    CASE e.op \in {"get_complement", "neg"} -> Chk(IsComplement(A, R), e.op)
      [] e.op \in {"reverse", "invert"}     -> Chk(Equiv(R, RevA(A)), e.op)
      [] e.op = "kleene_star"               -> Chk(Equiv(R, StarA(A)), e.op)

(* ---- C04: word enumeration ---- *)
NoDup(s) == \A i, j \in DOMAIN s : i # j => s[i] # s[j]
JEnum(e) ==
  LET A == Aut(e.A)
      unb == e.n < 0
      fin == IsFiniteLang(A)
  IN IF unb /\ ~fin THEN U("Enum")
     ELSE IF Has(e, "exc") THEN F("Enum.noexc")
     ELSE IF e.status = "timeout" \/ ~e.exhausted THEN F("Enum.terminates")
     ELSE LET expect == Lang(A, Sigma(A), IF unb THEN Cardinality(A.states) ELSE e.n) IN
          Chk(NoDup(e.items), "Enum.nodup") \cup Chk(ToSet(e.items) \subseteq expect, "Enum.sound")
          \cup Chk(expect \subseteq ToSet(e.items), "Enum.complete")

(* ---- C06: to_regex ---- *)
PlainOK(e) == e.plain
JToRegex(e) ==
  IF ~PlainOK(e) THEN U("to_regex")
  ELSE IF Has(e, "exc") THEN F("to_regex.noexc")
  ELSE LET A == Aut(e.A) R == Aut(e.R) acc == ToSet(e.acc) IN
       Chk(Equiv(A, R), "to_regex.enfa")
       \cup Chk(\A i \in DOMAIN e.words : (e.words[i] \in acc) <=> Accepts(A, e.words[i]), "to_regex.accepts")

(* ---- small queries of the API machine: counts, epsilon closure of one state, one-step successors ---- *)
JMisc(e) ==
  IF Has(e, "exc") THEN F("misc.noexc")
  ELSE LET A == Aut(e.A) IN
       Chk(e.ntrans = Cardinality(A.delta), "get_number_transitions")
       \cup Chk(e.len = Cardinality(A.delta), "len")
       \cup Chk(\A i \in DOMAIN e.eclose : ToSet(e.eclose[i][2]) = Eclose(A, {e.eclose[i][1]}), "eclose")
       \cup Chk(\A i \in DOMAIN e.calls : ToSet(e.calls[i][3]) = Succ(A, {e.calls[i][1]}, e.calls[i][2]), "call")
       \cup Chk(\A i \in DOMAIN e.isfinal : e.isfinal[i][2] = (e.isfinal[i][1] \in A.final), "is_final_state")
       \cup Chk(ToSet(e.todict) = A.delta, "to_dict")
Judge(e) ==
  CASE e.op = "build" -> JBuild(e)
    [] e.op = "misc" -> JMisc(e)
    [] e.op = "accepts" -> JAccepts(e)
    [] e.op = "is_deterministic" -> JBool(e, IsDet(Aut(e.A)), "is_deterministic")
    [] e.op = "is_empty" -> JBool(e, IsEmptyLang(Aut(e.A)), "is_empty")
    [] e.op = "is_acyclic" -> JBool(e, Acyclic(Aut(e.A)), "is_acyclic")
    [] e.op = "to_deterministic" -> JConv(e, TRUE, TRUE)
    [] e.op = "remove_epsilon_transitions" -> JConv(e, FALSE, TRUE)
    [] e.op = "copy" -> JConv(e, FALSE, FALSE)
    [] e.op = "minimize" -> JMinimize(e)
    [] e.op \in {"is_equivalent_to", "eq"} -> JEquiv(e)
    [] e.op = "canonical" -> JCanon(e)
    [] e.op \in {"get_intersection", "and", "get_difference", "sub", "union", "or", "concatenate", "add"} -> JBinop(e)
    [] e.op \in {"get_complement", "neg", "reverse", "invert", "kleene_star"} -> JUnop(e)
    [] e.op = "get_accepted_words" -> JEnum(e)
    [] e.op = "to_regex" -> JToRegex(e)
    [] OTHER -> F("unknown-op")

Init == l = 1 /\ out = {}
Next == /\ l <= Len(Log) /\ l' = l + 1
        /\ out' = out \cup { <<Log[l].id, v[1], v[2]>> : v \in Judge(Log[l]) }
Spec == Init /\ [][Next]_<<l, out>>
Done == (l = Len(Log) + 1) => JsonSerialize(IOEnv.OUT_FILE, SetToSeq(out))
Post == TLCGet("stats").diameter = Len(Log) + 1
=============================================================================
