------------------------------- MODULE TraceIG -------------------------------
(* Trace specification for indexed grammars (C17): emptiness verdicts for every permutation of the
   rule list and every ordering heuristic, after remove_useless_rules, and of intersections with a
   regular language, judged with IGSem. *)
EXTENDS IGSem, Sequences, SequencesExt, Json, IOUtils, TLCExt
FA == INSTANCE FASem

Log == ndJsonDeserialize(IOEnv.TRACE_FILE)
VARIABLES l, out
Has(e, k) == k \in DOMAIN e
Fl(c) == {<<c, "FAIL">>}
Chk(ok, c) == IF ok THEN {} ELSE Fl(c)
Rule(r) == r          \* JSON arrays are sequences already: <<"end", A, a>> ...
IgOf(j) == [start |-> j.start, nts |-> ToSetI(j.nts), idx |-> ToSetI(j.idx), rules |-> ToSetI(j.rules)]
(* verdicts: sequence of <<perm, optim, answer>>, answer = "empty" | "nonempty" | "exc:<Name>" *)
JEmpty(e) ==
  LET G == IgOf(e.G)
      want == IF NonEmpty(G) THEN "nonempty" ELSE "empty"
      V == ToSetI(e.verdicts)
      W == ToSetI(e.useless)
  IN Chk(\A v \in V : v[3] \in {"empty", "nonempty"}, "is_empty.noexc")
     \cup Chk(\A v \in V : v[3] \in {"empty", "nonempty"} => v[3] = want, "is_empty")
     \cup Chk(\A v \in W : v[3] \in {"empty", "nonempty"}, "remove_useless_rules.noexc")
     \cup Chk(\A v \in W : v[3] \in {"empty", "nonempty"} => v[3] = want, "remove_useless_rules")
(* every marked set is sound: if E is marked for A then every achievable productive set that
   contains E contains A (localises a wrong verdict) *)
JMarked(e) ==
  LET G == IgOf(e.G)
      Ach == Achievable(G)
  IN Chk(\A i \in DOMAIN e.marked : \A k \in DOMAIN e.marked[i][2] :
            LET A == e.marked[i][1] E == ToSetI(e.marked[i][2][k]) IN \A S \in Ach : E \subseteq S => A \in S, "marked.sound")
(* deciding emptiness of an indexed grammar takes exponential time in general and the product grammar has |Q|^2 copies of
   every rule: a verdict on the product that does not arrive within the call budget decides nothing (the budget is
   enforced, and reported as a failure, on the small grammars of ig_empty) *)
JInter(e) ==
  IF Has(e, "slow") THEN {<<"intersection", "UNSPEC">>}
  ELSE IF Has(e, "exc") THEN Fl("intersection.noexc")
  ELSE LET G == IgOf(e.G)
           D == FA!DetA(FA!Aut(e.A))
       IN Chk((e.res = "nonempty") <=> InterNonEmpty(G, D), "intersection")
Judge(e) ==
  CASE e.op = "ig_empty" -> JEmpty(e) \cup (IF Has(e, "marked") THEN JMarked(e) ELSE {})
    [] e.op = "ig_intersection" -> JInter(e)
    [] OTHER -> Fl("unknown-op")

Init == l = 1 /\ out = {}
Next == /\ l <= Len(Log) /\ l' = l + 1
        /\ out' = out \cup { <<Log[l].id, v[1], v[2]>> : v \in Judge(Log[l]) }
Spec == Init /\ [][Next]_<<l, out>>
Done == (l = Len(Log) + 1) => JsonSerialize(IOEnv.OUT_FILE, SetToSeq(out))
Post == TLCGet("stats").diameter = Len(Log) + 1
=============================================================================
