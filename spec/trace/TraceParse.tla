------------------------------- MODULE TraceParse -------------------------------
(* Trace specification for the parsers (C14: LL(1) sets, verdict and table-driven parser;
   C15: every tree / derivation handed out is a real derivation of the given word). *)
EXTENDS LL1Sem, TreeSem, Json, IOUtils, TLCExt

Log == ndJsonDeserialize(IOEnv.TRACE_FILE)
VARIABLES l, out
Has(e, k) == k \in DOMAIN e
Fl(c) == {<<c, "FAIL">>}
U(c) == {<<c, "UNSPEC">>}
Chk(ok, c) == IF ok THEN {} ELSE Fl(c)
UselessFree(G) == UsefulG(G).prods = G.prods /\ G.prods # {}

(* logged dictionaries come as sequences of <<key, <<values>>>>; a missing key is the empty set *)
AsFun(G, s) == [A \in AllVars(G) |-> UNION { ToSet(s[i][2]) : i \in { k \in DOMAIN s : s[k][1] = A } }]
JFirstFollow(e) ==
  LET G == Gram(e.G) IN
  IF ~UselessFree(G) THEN U(e.op)
  ELSE IF Has(e, "exc") THEN Fl(e.op \o ".noexc")
  ELSE IF e.op = "get_first_set" THEN Chk(AsFun(G, e.res) = FirstWithEps(G), "get_first_set")
  ELSE Chk(AsFun(G, e.res) = Follow(G), "get_follow_set")
JLL1(e) == LET G == Gram(e.G) IN
  IF ~UselessFree(G) THEN U("is_llone_parsable")
  ELSE IF Has(e, "exc") THEN Fl("is_llone_parsable.noexc") ELSE Chk(e.res = IsLL1(G), "is_llone_parsable")
(* results[i] is "tree" | exception class name, for words[i] *)
JLL1Parse(e) == LET G == Gram(e.G) LG == Lang(G, e.L) IN
  IF ~UselessFree(G) \/ ~IsLL1(G) THEN U("llone_parse")
  ELSE Chk(\A i \in DOMAIN e.words : e.results[i] \in {"tree", "NotParsableException"}, "llone_parse.exception")
       \cup Chk(\A i \in DOMAIN e.words : (e.results[i] = "tree") <=> (e.words[i] \in LG), "llone_parse.member")

(* ---- C15 ---- *)
ProdSet(j) == { <<p[1], p[2]>> : p \in ToSet(j.prods) }
JTree(e) ==
  LET P == Gram(e.P)            \* the grammar whose productions the tree must use (normal form for CNF trees)
      Vs == P.allv \cup ToSet(e.G.allv)
  IN IF Has(e, "badtree") THEN Fl(e.op \o ".valid") ELSE
     Chk(ValidTree(Vs, e.tree, e.G.start, P.prods, e.w), e.op \o ".valid")
     \cup (IF Has(e, "left") THEN Chk(IsLeftmost(Vs, e.left, e.G.start, P.prods, e.w), e.op \o ".leftmost") ELSE {})
     \cup (IF Has(e, "right") THEN Chk(IsRightmost(Vs, e.right, e.G.start, P.prods, e.w), e.op \o ".rightmost") ELSE {})
     \cup (IF Has(e, "derexc") THEN Fl(e.op \o ".derivation.noexc") ELSE {})
(* refusal contract: non-members raise the documented exception; members get a tree (within the
   termination domain flagged by the harness as e.domain) *)
(* recursive descent is documented to terminate only without epsilon productions and unit cycles,
   and (in practice) without left recursion in leftmost mode / right recursion in rightmost mode *)
RECURSIVE ReachR(_,_)
ReachR(E, S) == LET N == S \cup { x[2] : x \in { f \in E : f[1] \in S } } IN IF N = S THEN S ELSE ReachR(E, N)
CycleFree(E) == \A x \in E : x[1] \notin ReachR(E, {x[2]})
UnitEdges(G) == { <<p[1], p[2][1]>> : p \in { q \in G.prods : Len(q[2]) = 1 /\ IsVar(G, q[2][1]) } }
LeftEdges(G) == { <<p[1], p[2][1]>> : p \in { q \in G.prods : q[2] # <<>> /\ IsVar(G, q[2][1]) } }
RightEdges(G) == { <<p[1], p[2][Len(p[2])]>> : p \in { q \in G.prods : q[2] # <<>> /\ IsVar(G, q[2][Len(q[2])]) } }
Domain(e, G) == CASE e.op = "rd_parse_left" -> NoEps(G) /\ CycleFree(UnitEdges(G)) /\ CycleFree(LeftEdges(G))
                  [] e.op = "rd_parse_right" -> NoEps(G) /\ CycleFree(UnitEdges(G)) /\ CycleFree(RightEdges(G))
                  [] OTHER -> TRUE
JRefuse(e) ==
  LET G == Gram(e.G) LG == Lang(G, e.L) IN
  IF ~Domain(e, G) THEN U(e.op)
  ELSE Chk(\A i \in DOMAIN e.words : e.words[i] \notin LG => e.results[i] = e.refusal, e.op \o ".refuses")
       \cup Chk(\A i \in DOMAIN e.words : e.words[i] \in LG /\ e.words[i] \notin ToSet(e.skip) => e.results[i] = "tree", e.op \o ".finds")

Judge(e) ==
  CASE e.op \in {"get_first_set", "get_follow_set"} -> JFirstFollow(e)
    [] e.op = "is_llone_parsable" -> JLL1(e)
    [] e.op = "llone_parse" -> JLL1Parse(e)
    [] e.op \in {"cnf_tree", "llone_tree", "rd_tree_left", "rd_tree_right", "fcfg_tree"} -> JTree(e)
    [] e.op \in {"cnf_parse", "rd_parse_left", "rd_parse_right", "llone_refuse"} -> JRefuse(e)
    [] OTHER -> Fl("unknown-op")

Init == l = 1 /\ out = {}
Next == /\ l <= Len(Log) /\ l' = l + 1
        /\ out' = out \cup { <<Log[l].id, v[1], v[2]>> : v \in Judge(Log[l]) }
Spec == Init /\ [][Next]_<<l, out>>
Done == (l = Len(Log) + 1) => JsonSerialize(IOEnv.OUT_FILE, SetToSeq(out))
Post == TLCGet("stats").diameter = Len(Log) + 1
=============================================================================
