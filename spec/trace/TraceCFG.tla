------------------------------- MODULE TraceCFG -------------------------------
(* Trace specification for context-free grammars (C08, C09, C10, C12): every logged public call is
   judged with the reference semantics CFGSem on the projected abstract grammars. *)
EXTENDS CFGSem, Json, IOUtils, TLCExt

Log == ndJsonDeserialize(IOEnv.TRACE_FILE)
VARIABLES l, out
Has(e, k) == k \in DOMAIN e
Fl(c) == {<<c, "FAIL">>}
U(c) == {<<c, "UNSPEC">>}
Chk(ok, c) == IF ok THEN {} ELSE Fl(c)
NoDup(s) == \A i, j \in DOMAIN s : i # j => s[i] # s[j]

(* construction: the projected grammar must be the one the spec's generator asked for *)
JNew(e) == LET G == Gram(e.G) IN
   Chk(G.start = e.start /\ G.prods = { <<p[1], p[2]>> : p \in ToSet(e.prods) }, "New.state")

(* ---- C08 ---- *)
JContains(e) ==
  IF Has(e, "exc") THEN Fl(e.op \o ".noexc")
  ELSE LET G == Gram(e.G) LG == Lang(G, e.L) acc == ToSet(e.acc) IN
       Chk(\A i \in DOMAIN e.words : (e.words[i] \in acc) <=> (e.words[i] \in LG), e.op)
JBool(e, v) == IF Has(e, "exc") THEN Fl(e.op \o ".noexc") ELSE Chk(e.res = v, e.op)
JSet(e, S) == IF Has(e, "exc") THEN Fl(e.op \o ".noexc")
              ELSE Chk(ToSet(e.res) \subseteq S, e.op \o ".sound") \cup Chk(S \subseteq ToSet(e.res), e.op \o ".complete")

(* ---- C12 word enumeration ---- *)
JWords(e) ==
  LET G == Gram(e.G)
      unb == e.n < 0
  IN IF unb /\ ~IsFiniteLang(G) THEN U("get_words")
     ELSE IF Has(e, "exc") THEN Fl("get_words.noexc")
     ELSE IF e.status = "timeout" \/ ~e.exhausted THEN Fl("get_words.terminates")
     ELSE LET expect == IF unb THEN Lang(TrimG(G), e.K) ELSE Lang(G, e.n) IN
          Chk(NoDup(e.items), "get_words.nodup") \cup Chk(ToSet(e.items) \subseteq expect, "get_words.sound")
          \cup Chk(expect \subseteq ToSet(e.items), "get_words.complete")

(* ---- C09 transformations ---- *)
JTrans(e) ==
  IF Has(e, "exc") THEN Fl(e.op \o ".noexc")
  ELSE LET G == Gram(e.G) R == Gram(e.R)
           LG == Lang(G, e.L) LR == Lang(R, e.L)
           dropEps == e.op \in {"remove_epsilon", "to_normal_form"}
           shape == CASE e.op = "remove_useless_symbols" -> OnlyUseful(R)
                      [] e.op = "remove_epsilon" -> NoEps(R)
                      [] e.op = "eliminate_unit_productions" -> NoUnit(R)
                      [] e.op = "to_normal_form" -> IsCNF(R)
       IN Chk(LR = (IF dropEps THEN LG \ {<<>>} ELSE LG), e.op \o ".lang") \cup Chk(shape, e.op \o ".shape")
          \cup (IF e.op = "to_normal_form" THEN Chk(e.isnf, "to_normal_form.is_normal_form") ELSE {})

(* ---- C10 language algebra ---- *)
RECURSIVE SubstBody(_,_,_,_,_)
SubstBody(G, F, S, b, L) ==      \* like BodyLang, a substituted terminal t contributes the language S[t]
  IF b = <<>> THEN {<<>>}
  ELSE LET h == Head(b)
           X == IF h \in DOMAIN F THEN F[h] ELSE IF h \in DOMAIN S THEN S[h] ELSE {<<h>>}
       IN Cat(Trunc(X, L), SubstBody(G, F, S, Tail(b), L), L)
RECURSIVE SubstLfp(_,_,_,_)
SubstLfp(G, F, S, L) ==
  LET F2 == [A \in DOMAIN F |-> F[A] \cup UNION { SubstBody(G, F, S, p[2], L) : p \in ProdsOf(G, A) }]
  IN IF F2 = F THEN F ELSE SubstLfp(G, F2, S, L)
SubstLang(G, S, L) == IF G.start \in AllVars(G) THEN SubstLfp(G, [A \in AllVars(G) |-> {}], S, L)[G.start] ELSE {}
JAlg(e) ==
  IF Has(e, "exc") THEN Fl(e.op \o ".noexc")
  ELSE LET L == e.L
           LA == Lang(Gram(e.G), L)
           LB == IF Has(e, "H") THEN Lang(Gram(e.H), L) ELSE {}
           LR == Lang(Gram(e.R), L)
           expect == CASE e.op \in {"union", "or"} -> LA \cup LB
                       [] e.op \in {"concatenate", "add"} -> Cat(LA, LB, L)
                       [] e.op = "get_closure" -> Star(LA, L)
                       [] e.op = "get_positive_closure" -> Cat(LA, Star(LA, L), L)
                       [] e.op \in {"reverse", "invert"} -> Rev(LA)
                       [] e.op = "substitute" -> SubstLang(Gram(e.G), [t \in {e.t} |-> LB], L)
                       \* two terminals replaced at once (simultaneous: what is substituted is not rewritten again)
                       [] e.op = "substitute2" -> SubstLang(Gram(e.G), [t \in {e.t, e.t2} |-> IF t = e.t THEN LB ELSE Lang(Gram(e.H2), L)], L)
       IN Chk(LR = expect, e.op)
          \* the returned object must also *answer* for its own productions (cached analyses copied from an operand)
          \cup (IF Has(e, "racc") THEN Chk(ToSet(e.racc) = { w \in ToSet(e.rwords) : w \in LR }, e.op \o ".result_contains") ELSE {})

Judge(e) ==
  CASE e.op = "new" -> JNew(e)
    [] e.op \in {"contains", "in"} -> JContains(e)
    [] e.op = "generate_epsilon" -> JBool(e, <<>> \in Lang(Gram(e.G), 0))
    [] e.op = "is_empty" -> JBool(e, IsEmptyLang(Gram(e.G)))
    [] e.op = "is_finite" -> JBool(e, IsFiniteLang(Gram(e.G)))
    [] e.op = "get_generating_symbols" -> LET G == Gram(e.G) IN JSet(e, GenVars(G) \cup G.terms)
    [] e.op = "get_nullable_symbols" -> JSet(e, NullVars(Gram(e.G)))
    [] e.op = "get_reachable_symbols" -> JSet(e, ReachSyms(Gram(e.G)))
    [] e.op = "get_words" -> JWords(e)
    [] e.op \in {"remove_useless_symbols", "remove_epsilon", "eliminate_unit_productions", "to_normal_form"} -> JTrans(e)
    [] e.op \in {"union", "or", "concatenate", "add", "get_closure", "get_positive_closure", "reverse", "invert", "substitute", "substitute2"} -> JAlg(e)
    [] OTHER -> Fl("unknown-op")

Init == l = 1 /\ out = {}
Next == /\ l <= Len(Log) /\ l' = l + 1
        /\ out' = out \cup { <<Log[l].id, v[1], v[2]>> : v \in Judge(Log[l]) }
Spec == Init /\ [][Next]_<<l, out>>
Done == (l = Len(Log) + 1) => JsonSerialize(IOEnv.OUT_FILE, SetToSeq(out))
Post == TLCGet("stats").diameter = Len(Log) + 1
=============================================================================
