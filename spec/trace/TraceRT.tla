------------------------------- MODULE TraceRT -------------------------------
(* Trace specification for the round trips (C20): networkx export/import of automata, PDAs and
   transducers reproduces the same abstract machine; CFG text export/import reproduces the same
   productions and language; recursive automata built from EBNF / regex have one box per head whose
   automaton accepts exactly the alternatives of that head (RegexSem). *)
EXTENDS RegexSem, SequencesExt, Json, IOUtils, TLCExt
FA == INSTANCE FASem
CF == INSTANCE CFGSem

Log == ndJsonDeserialize(IOEnv.TRACE_FILE)
VARIABLES l, out
Has(e, k) == k \in DOMAIN e
Fl(c) == {<<c, "FAIL">>}
U(c) == {<<c, "UNSPEC">>}
Chk(ok, c) == IF ok THEN {} ELSE Fl(c)
(* the property speaks of states, start/final marking and transitions: the declared alphabet (which
   keeps symbols of removed transitions) is not part of the comparison *)
Fields(j) == [k \in DOMAIN j \ {"symbols"} |-> IF k \in {"start", "z0"} /\ "z0" \in DOMAIN j THEN j[k] ELSE ToSet(j[k])]
JNx(e) == IF Has(e, "exc") THEN Fl(e.op \o ".noexc")
          ELSE Chk(Fields(e.X) = Fields(e.Y), e.op)
JText(e) ==
  IF Has(e, "exc") THEN Fl("text_roundtrip.noexc")
  ELSE LET G == CF!Gram(e.G) R == CF!Gram(e.R) IN
       Chk(R.prods = G.prods /\ R.start = G.start, "text_roundtrip.productions")
       \cup Chk(CF!Lang(R, e.L) = CF!Lang(G, e.L), "text_roundtrip.language")
(* e.lines: sequence of <<head, tokens>>; e.boxes: sequence of <<label, automaton>> *)
JRsa(e) ==
  IF \E i \in DOMAIN e.lines : Parse(e.lines[i][2], e.L).class # "WF" THEN
     (IF Has(e, "exc") /\ e.exc # "MisformedRegexError" THEN U("rsa") ELSE U("rsa"))
  ELSE IF Has(e, "exc") THEN Fl("rsa.noexc")
  ELSE LET heads == { e.lines[i][1] : i \in DOMAIN e.lines }
           alph == ToSet(e.alph)
           LangOf(h) == UNION { Parse(e.lines[i][2], e.L).lang : i \in { k \in DOMAIN e.lines : e.lines[k][1] = h } }
           BoxesOf(h) == { i \in DOMAIN e.boxes : e.boxes[i][1] = h }
       IN Chk({ e.boxes[i][1] : i \in DOMAIN e.boxes } = heads /\ Len(e.boxes) = Cardinality(heads), "rsa.one_box_per_head")
          \cup Chk(\A h \in heads : \A i \in BoxesOf(h) : FA!Lang(FA!Aut(e.boxes[i][2]), alph, e.L) = LangOf(h), "rsa.box_language")
          \cup Chk(\A i \in DOMAIN e.boxes : FA!IsDet(FA!Aut(e.boxes[i][2])), "rsa.box_deterministic")
Judge(e) ==
  CASE e.op \in {"fa_nx_roundtrip", "pda_nx_roundtrip", "fst_nx_roundtrip"} -> JNx(e)
    [] e.op = "text_roundtrip" -> JText(e)
    [] e.op \in {"rsa_ebnf", "rsa_regex"} -> JRsa(e)
    [] OTHER -> Fl("unknown-op")

Init == l = 1 /\ out = {}
Next == /\ l <= Len(Log) /\ l' = l + 1
        /\ out' = out \cup { <<Log[l].id, v[1], v[2]>> : v \in Judge(Log[l]) }
Spec == Init /\ [][Next]_<<l, out>>
Done == (l = Len(Log) + 1) => JsonSerialize(IOEnv.OUT_FILE, SetToSeq(out))
Post == TLCGet("stats").diameter = Len(Log) + 1
=============================================================================
