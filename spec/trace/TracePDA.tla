------------------------------- MODULE TracePDA -------------------------------
(* Trace specification for pushdown automata and their conversions (C13) and for the
   intersections with a regular language (C11). *)
EXTENDS PDASem, Json, IOUtils, TLCExt
FA == INSTANCE FASem
CF == INSTANCE CFGSem

Log == ndJsonDeserialize(IOEnv.TRACE_FILE)
VARIABLES l, out
Has(e, k) == k \in DOMAIN e
Fl(c) == {<<c, "FAIL">>}
U(c) == {<<c, "UNSPEC">>}
Chk(ok, c) == IF ok THEN {} ELSE Fl(c)
Strip(w) == [i \in DOMAIN w |-> SubSeq(w[i], 3, Len(w[i]))]     \* "T:s:a" -> "s:a"
Words(e) == ToSet(e.words)                                       \* words over tagged input symbols "s:a"
CfgLang(j, L) == { Strip(w) : w \in CF!Lang(CF!Gram(j), L) }

(* the PDA the harness built must be the one the generator asked for *)
JBuild(e) == Chk(Pda(e.P) = Pda(e.spec), "Build.state")
(* a PDA that has a start state but was never given a start stack symbol has no initial configuration in the textbook
   sense (is the word accepted by final state at the start state?): its language is not specified, only that the
   conversions do not fail on it *)
NoInitialStack(e) == Has(e, "P") /\ e.P.z0 = "none" /\ e.P.start # "none"
JConv(e) ==
  IF Has(e, "exc") THEN Fl(e.op \o ".noexc")
  ELSE IF NoInitialStack(e) THEN {<<e.op, "UNSPEC">>}
  ELSE CASE e.op = "to_final_state" ->
              LET P == Pda(e.P) R == Pda(e.R) IN Chk(\A w \in Words(e) : AcceptsFinal(R, w) <=> AcceptsEmpty(P, w), e.op)
         [] e.op = "to_empty_stack" ->
              LET P == Pda(e.P) R == Pda(e.R) IN Chk(\A w \in Words(e) : AcceptsEmpty(R, w) <=> AcceptsFinal(P, w), e.op)
         [] e.op = "to_cfg" ->
              LET P == Pda(e.P) LG == CfgLang(e.G, e.L) IN Chk(\A w \in Words(e) : (w \in LG) <=> AcceptsEmpty(P, w), e.op)
         [] e.op = "to_pda" ->
              LET R == Pda(e.R) LG == CfgLang(e.G, e.L) IN Chk(\A w \in Words(e) : AcceptsEmpty(R, w) <=> (w \in LG), e.op)
         [] e.op = "pda_intersection" ->
              LET P == Pda(e.P) R == Pda(e.R) A == FA!Aut(e.A) IN
              Chk(\A w \in Words(e) : AcceptsFinal(R, w) <=> (AcceptsFinal(P, w) /\ FA!Accepts(A, w)), e.op)
         [] e.op = "cfg_intersection" ->
              LET A == FA!Aut(e.A) LG == CfgLang(e.G, e.L) LR == CfgLang(e.R, e.L) IN
              Chk(\A w \in Words(e) : (w \in LR) <=> (w \in LG /\ FA!Accepts(A, w)), e.op)
              \cup Chk(\A w \in LR : w \in Words(e), e.op \o ".alphabet")
              \cup (IF Has(e, "rexc") THEN Fl(e.op \o ".result_contains.noexc")
                    ELSE IF Has(e, "racc")
                    THEN Chk(\A w \in Words(e) : (w \in ToSet(e.racc)) <=> (w \in LG /\ FA!Accepts(A, w)), e.op \o ".result_contains")
                    ELSE {})
(* any other operand type must raise NotImplementedError *)
JBadOperand(e) == Chk(Has(e, "exc") /\ e.exc = "NotImplementedError", e.op)
Judge(e) ==
  CASE e.op = "build" -> JBuild(e)
    [] e.op \in {"to_final_state", "to_empty_stack", "to_cfg", "to_pda", "pda_intersection", "cfg_intersection"} -> JConv(e)
    [] e.op \in {"pda_intersection_badtype", "cfg_intersection_badtype"} -> JBadOperand(e)
    [] OTHER -> Fl("unknown-op")

Init == l = 1 /\ out = {}
Next == /\ l <= Len(Log) /\ l' = l + 1
        /\ out' = out \cup { <<Log[l].id, v[1], v[2]>> : v \in Judge(Log[l]) }
Spec == Init /\ [][Next]_<<l, out>>
Done == (l = Len(Log) + 1) => JsonSerialize(IOEnv.OUT_FILE, SetToSeq(out))
Post == TLCGet("stats").diameter = Len(Log) + 1
=============================================================================
