------------------------------- MODULE TraceHist -------------------------------
(* Trace specification for C19.  Every logged event carries the call, its answer, the answer of
   the same call on freshly built equal objects, and a snapshot (abstract value) of every live
   object.  Frame: a snapshot changes only for the receiver of a mutator.  AnswersFunctional: the
   answer equals the fresh answer, and equal (value, call) pairs always get equal answers. *)
EXTENDS Naturals, Sequences, FiniteSets, TLC, Json, IOUtils, TLCExt, SequencesExt
Log == ndJsonDeserialize(IOEnv.TRACE_FILE)
VARIABLES l, snap, memo, out
Has(f, k) == k \in DOMAIN f
\* the class of the receiver belongs to the key: a DFA and an epsilon-NFA with the same abstract value answer to_dict()
\* in different shapes (one target state / a set of target states)
Key(e) == IF Has(e, "o2") THEN <<e.otype, snap[ToString(e.o)], e.kop, snap[ToString(e.o2)]>> ELSE <<e.otype, snap[ToString(e.o)], e.kop>>
Judge(e) ==
  IF e.k = "init" THEN {}
  ELSE
  LET frameBad == { o \in DOMAIN snap : e.snaps[o] # snap[o] /\ ~(e.k = "mutate" /\ ToString(e.o) = o) }
      isq == e.k \in {"query", "query2", "conv1", "conv2"} /\ Has(e, "ans")
      funcBad == isq /\ (e.ans # e.fresh \/ (Key(e) \in DOMAIN memo /\ memo[Key(e)] # e.ans))
  IN (IF frameBad # {} THEN {<<"Frame", "FAIL">>} ELSE {})
     \cup (IF funcBad THEN {<<"AnswersFunctional", "FAIL">>} ELSE {})
     \cup (IF Has(e, "exc") THEN {<<"NoException", "FAIL">>} ELSE {})
     \cup (IF Has(e, "alias") THEN {<<"NoAlias", "FAIL">>} ELSE {})
Init == l = 1 /\ snap = <<>> /\ memo = <<>> /\ out = {}
Next == /\ l <= Len(Log) /\ l' = l + 1
        /\ LET e == Log[l] IN
           /\ out' = out \cup { <<e.id, v[1], v[2]>> : v \in Judge(e) }
           /\ snap' = e.snaps
           /\ memo' = IF e.k = "init" THEN <<>>
                      ELSE IF e.k \in {"query", "query2", "conv1", "conv2"} /\ Has(e, "ans") /\ Key(e) \notin DOMAIN memo
                      THEN memo @@ (Key(e) :> e.ans) ELSE memo
Spec == Init /\ [][Next]_<<l, snap, memo, out>>
Done == (l = Len(Log) + 1) => JsonSerialize(IOEnv.OUT_FILE, SetToSeq(out))
Post == TLCGet("stats").diameter = Len(Log) + 1
=============================================================================
