------------------------------- MODULE TraceFST -------------------------------
(* Trace specification for finite-state transducers (C16). *)
EXTENDS FSTSem, Json, IOUtils, TLCExt
FA == INSTANCE FASem

Log == ndJsonDeserialize(IOEnv.TRACE_FILE)
VARIABLES l, out
Has(e, k) == k \in DOMAIN e
Fl(c) == {<<c, "FAIL">>}
U(c) == {<<c, "UNSPEC">>}
Chk(ok, c) == IF ok THEN {} ELSE Fl(c)

JBuild(e) == Chk(Fst(e.T) = Fst(e.spec), "Build.state")
(* e.outs[i] = sequence of the yielded outputs for e.words[i], or <<"#timeout">> / <<"#exc">> *)
JTranslate(e) ==
  LET T == Fst(e.T) IN
  IF ~EpsCyclesSilent(T) THEN U("translate")
  ELSE Chk(\A i \in DOMAIN e.words : e.status[i] = "ok", "translate.terminates")
       \cup Chk(\A i \in DOMAIN e.words : e.status[i] = "ok" => ToSet(e.outs[i]) \subseteq Outputs(T, e.words[i]), "translate.sound")
       \cup Chk(\A i \in DOMAIN e.words : e.status[i] = "ok" => Outputs(T, e.words[i]) \subseteq ToSet(e.outs[i]), "translate.complete")
JOp(e) ==
  LET A == Fst(e.T)
      B == IF Has(e, "T2") THEN Fst(e.T2) ELSE A
  IN IF ~EpsCyclesSilent(A) \/ ~EpsCyclesSilent(B) THEN U(e.op)
     ELSE IF e.op = "kleene_star" /\ ~StarDefined(A) THEN U(e.op)
     ELSE IF Has(e, "exc") THEN Fl(e.op \o ".noexc")
     ELSE LET R == Fst(e.R) IN
          IF ~EpsCyclesSilent(R) THEN Fl(e.op \o ".relation")
          ELSE LET Expect(w) == CASE e.op \in {"union", "or"} -> RUnion(A, B, w)
                                  [] e.op \in {"concatenate", "add"} -> RConcat(A, B, w)
                                  [] e.op = "kleene_star" -> RStar(A, w)
               IN Chk(\A i \in DOMAIN e.words : Outputs(R, e.words[i]) = Expect(e.words[i]), e.op \o ".relation")
                  \cup Chk(\A i \in DOMAIN e.words : e.status[i] = "ok" /\ ToSet(e.outs[i]) = Expect(e.words[i]), e.op \o ".translate")
JToFst(e) ==
  IF Has(e, "exc") THEN Fl("to_fst.noexc")
  ELSE LET A == FA!Aut(e.A) R == Fst(e.R) IN
       IF ~EpsCyclesSilent(R) THEN Fl("to_fst")
       ELSE Chk(\A i \in DOMAIN e.words : Outputs(R, e.words[i]) = (IF FA!Accepts(A, e.words[i]) THEN {e.words[i]} ELSE {}), "to_fst")
Judge(e) ==
  CASE e.op = "build" -> JBuild(e)
    [] e.op = "translate" -> JTranslate(e)
    [] e.op \in {"union", "or", "concatenate", "add", "kleene_star"} -> JOp(e)
    [] e.op = "to_fst" -> JToFst(e)
    [] OTHER -> Fl("unknown-op")

Init == l = 1 /\ out = {}
Next == /\ l <= Len(Log) /\ l' = l + 1
        /\ out' = out \cup { <<Log[l].id, v[1], v[2]>> : v \in Judge(Log[l]) }
Spec == Init /\ [][Next]_<<l, out>>
Done == (l = Len(Log) + 1) => JsonSerialize(IOEnv.OUT_FILE, SetToSeq(out))
Post == TLCGet("stats").diameter = Len(Log) + 1
=============================================================================
