--------------------------- MODULE ValueSemantics ---------------------------
(* Objects behave as values (C19).  The typed signature of the public API as a state machine over
   a heap of opaque objects: queries leave the heap unchanged, conversions allocate a new object,
   mutators change only their receiver.  `ver` counts the mutations applied to each object; the
   only action allowed to change ver[o] is a mutator whose receiver is o (Frame).  In generation
   mode TLC produces call histories (exhaustively to a small depth, and by simulation) that the
   harness replays on real objects; TraceHist binds the logged snapshots and answers. *)
EXTENDS Naturals, Sequences, FiniteSets, TLC
CONSTANTS MaxObj, MaxLen, RootA, RootB     \* types of the two root objects built by the harness
VARIABLES typ, ver, src, hist
vars == <<typ, ver, src, hist>>

(* ---- signature: queries per type; conversions <<type, op, result type>>; binary <<t1, op, t2, result>> ---- *)
Queries(t) ==
  CASE t \in {"enfa", "dfa"} -> {"accepts", "is_deterministic", "is_empty", "is_acyclic", "get_accepted_words", "len", "to_dict"}
    [] t = "regex" -> {"accepts", "str", "get_number_symbols", "get_tree_str"}
    [] t = "cfg" -> {"contains", "generate_epsilon", "is_empty", "is_finite", "get_generating_symbols", "get_nullable_symbols",
                     "get_reachable_symbols", "get_words", "is_normal_form", "to_text", "llone_first", "cnf_tree"}
    [] t = "pda" -> {"get_number_transitions", "to_dict"}
    [] t = "fst" -> {"translate", "get_number_transitions"}
    [] t = "ig" -> {"is_empty", "get_generating_non_terminals", "get_reachable_non_terminals"}
Unary ==
  { <<t, op, "dfa">> : t \in {"enfa", "dfa"}, op \in {"to_deterministic", "minimize"} }
  \cup { <<"enfa", op, "enfa">> : op \in {"remove_epsilon_transitions", "copy", "get_complement", "reverse", "kleene_star"} }
  \cup { <<"dfa", op, r>> : <<op, r>> \in {<<"copy", "dfa">>, <<"get_complement", "enfa">>, <<"reverse", "enfa">>, <<"kleene_star", "enfa">>} }
  \cup { <<t, "to_regex", "regex">> : t \in {"enfa", "dfa"} } \cup { <<t, "to_fst", "fst">> : t \in {"enfa", "dfa"} }
  \cup { <<"regex", "to_epsilon_nfa", "enfa">>, <<"regex", "to_cfg", "cfg">>, <<"regex", "kleene_star", "regex">> }
  \cup { <<"cfg", op, "cfg">> : op \in {"to_normal_form", "remove_useless_symbols", "remove_epsilon", "eliminate_unit_productions",
                                        "get_closure", "get_positive_closure", "reverse"} }
  \cup { <<"cfg", "to_pda", "pda">>, <<"pda", "to_cfg", "cfg">>, <<"pda", "to_final_state", "pda">>, <<"pda", "to_empty_stack", "pda">> }
  \cup { <<"fst", "kleene_star", "fst">>, <<"ig", "remove_useless_rules", "ig">> }
Binary ==
  { <<t1, op, t2, "enfa">> : t1 \in {"enfa", "dfa"}, t2 \in {"enfa", "dfa"}, op \in {"get_intersection", "get_difference", "union", "concatenate"} }
  \cup { <<"regex", op, "regex", "regex">> : op \in {"union", "concatenate"} }
  \cup { <<"cfg", op, "cfg", "cfg">> : op \in {"union", "concatenate", "substitute"} }
  \cup { <<"cfg", "intersection", t2, "cfg">> : t2 \in {"enfa", "dfa", "regex"} }
  \cup { <<"pda", "intersection", t2, "pda">> : t2 \in {"enfa", "dfa", "regex"} }
  \cup { <<"fst", op, "fst", "fst">> : op \in {"union", "concatenate"} }
  \cup { <<"ig", "intersection", t2, "ig">> : t2 \in {"enfa", "dfa", "regex"} }
BoolQueries2 == { <<t1, "is_equivalent_to", t2>> : t1 \in {"enfa", "dfa"}, t2 \in {"enfa", "dfa"} }
Mutators(t) ==
  CASE t \in {"enfa", "dfa"} -> {"add_transition", "add_final_state", "add_start_state", "remove_transition", "remove_final_state"}
    [] t = "pda" -> {"add_transition", "add_final_state"}
    [] t = "fst" -> {"add_transition", "add_final_state"}
    [] OTHER -> {}

Live == DOMAIN ver
NewId == Cardinality(Live) + 1
Init == /\ typ = (1 :> RootA) @@ (2 :> RootB)
        /\ ver = (1 :> 0) @@ (2 :> 0)
        /\ src = (1 :> {}) @@ (2 :> {})
        /\ hist = <<>>
Query(o, q) == /\ q \in Queries(typ[o])
               /\ hist' = Append(hist, [k |-> "query", o |-> o, op |-> q]) /\ UNCHANGED <<typ, ver, src>>
Query2(a, b) == /\ <<typ[a], "is_equivalent_to", typ[b]>> \in BoolQueries2
                /\ hist' = Append(hist, [k |-> "query2", o |-> a, o2 |-> b, op |-> "is_equivalent_to"]) /\ UNCHANGED <<typ, ver, src>>
Conv1(o, c) == /\ c[1] = typ[o] /\ NewId <= MaxObj
               /\ typ' = typ @@ (NewId :> c[3]) /\ ver' = ver @@ (NewId :> 0) /\ src' = src @@ (NewId :> {o})
               /\ hist' = Append(hist, [k |-> "conv1", o |-> o, op |-> c[2], d |-> NewId])
Conv2(a, b, c) == /\ c[1] = typ[a] /\ c[3] = typ[b] /\ NewId <= MaxObj
                  /\ typ' = typ @@ (NewId :> c[4]) /\ ver' = ver @@ (NewId :> 0) /\ src' = src @@ (NewId :> {a, b})
                  /\ hist' = Append(hist, [k |-> "conv2", o |-> a, o2 |-> b, op |-> c[2], d |-> NewId])
Mutate(d, mu) == /\ mu \in Mutators(typ[d])
                 /\ ver' = [ver EXCEPT ![d] = @ + 1]
                 /\ hist' = Append(hist, [k |-> "mutate", o |-> d, op |-> mu, n |-> ver[d]])
                 /\ UNCHANGED <<typ, src>>
Next == /\ Len(hist) < MaxLen
        /\ \/ \E o \in Live : \E q \in Queries(typ[o]) : Query(o, q)
           \/ \E a, b \in Live : Query2(a, b)
           \/ \E o \in Live, c \in Unary : Conv1(o, c)
           \/ \E a, b \in Live, c \in Binary : Conv2(a, b, c)
           \/ \E d \in Live : \E mu \in Mutators(typ[d]) : Mutate(d, mu)
Spec == Init /\ [][Next]_vars
(* C19 on the specification: only the receiver of a mutator changes; objects are never re-typed or forgotten *)
Frame == [][\A o \in Live : ver'[o] # ver[o] => (hist'[Len(hist')].k = "mutate" /\ hist'[Len(hist')].o = o)]_vars
Stable == [][\A o \in Live : o \in DOMAIN ver' /\ typ'[o] = typ[o] /\ src'[o] = src[o]]_vars
=============================================================================
