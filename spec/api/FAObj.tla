------------------------------- MODULE FAObj -------------------------------
(* The finite-automaton part of the API state machine: one object, built through the public
   mutators.  Effects are operators (so the trace specification re-uses them on logged calls);
   the generator actions below apply them to the variable `aut` and record the call in `hist`.
   Kind is "enfa" | "nfa" | "dfa" (EpsilonNFA, NondeterministicFiniteAutomaton,
   DeterministicFiniteAutomaton).  A refused call (exception) leaves the object unchanged. *)
EXTENDS FASem

EmptyAut == [states |-> {}, start |-> {}, final |-> {}, symbols |-> {}, delta |-> {}]

(* add_transition: NFA/DFA refuse epsilon (InvalidEpsilonTransition); a DFA refuses a second
   successor for (p, a) (DuplicateTransitionError); re-adding an existing transition is a no-op *)
AddTOutcome(K, A, p, a, q) ==
  IF K # "enfa" /\ a = EPS THEN "InvalidEpsilonTransition"
  ELSE IF K = "dfa" /\ (\E t \in A.delta : t[1] = p /\ t[2] = a /\ t[3] # q) THEN "DuplicateTransitionError"
  ELSE "ok"
AddTEff(K, A, p, a, q) ==
  IF AddTOutcome(K, A, p, a, q) # "ok" THEN A
  ELSE [A EXCEPT !.delta = @ \cup {<<p, a, q>>}, !.states = @ \cup {p, q},
                 !.symbols = IF a = EPS THEN @ ELSE @ \cup {a}]
(* remove_transition returns 1 if it existed; states and symbols stay *)
RemTEff(K, A, p, a, q) == [A EXCEPT !.delta = @ \ {<<p, a, q>>}]
RemTRet(K, A, p, a, q) == IF <<p, a, q>> \in A.delta THEN 1 ELSE 0
(* add_start_state: a DFA has at most one start state (the new one replaces the old one) *)
AddSEff(K, A, p) == [A EXCEPT !.start = IF K = "dfa" THEN {p} ELSE @ \cup {p}, !.states = @ \cup {p}]
RemSEff(K, A, p) == [A EXCEPT !.start = @ \ {p}]
RemSRet(K, A, p) == IF p \in A.start THEN 1 ELSE 0
AddFEff(K, A, p) == [A EXCEPT !.final = @ \cup {p}, !.states = @ \cup {p}]
RemFEff(K, A, p) == [A EXCEPT !.final = @ \ {p}]
RemFRet(K, A, p) == IF p \in A.final THEN 1 ELSE 0
AddSymEff(K, A, a) == [A EXCEPT !.symbols = @ \cup {a}]

(* one logged call: c = <<op, args...>>; returns [aut, out] with out = "ok" | exception name | return value *)
Apply(K, A, c) ==
  CASE c[1] = "add_transition"    -> [aut |-> AddTEff(K, A, c[2], c[3], c[4]), out |-> AddTOutcome(K, A, c[2], c[3], c[4])]
    [] c[1] = "remove_transition" -> [aut |-> RemTEff(K, A, c[2], c[3], c[4]), out |-> ToString(RemTRet(K, A, c[2], c[3], c[4]))]
    [] c[1] = "add_start_state"   -> [aut |-> AddSEff(K, A, c[2]), out |-> "ok"]
    [] c[1] = "remove_start_state" -> [aut |-> RemSEff(K, A, c[2]), out |-> ToString(RemSRet(K, A, c[2]))]
    [] c[1] = "add_final_state"   -> [aut |-> AddFEff(K, A, c[2]), out |-> "ok"]
    [] c[1] = "remove_final_state" -> [aut |-> RemFEff(K, A, c[2]), out |-> ToString(RemFRet(K, A, c[2]))]
    [] c[1] = "add_symbol"        -> [aut |-> AddSymEff(K, A, c[2]), out |-> "ok"]

RECURSIVE Fold(_,_,_,_)
Fold(K, A, calls, i) == IF i > Len(calls) THEN A ELSE Fold(K, Apply(K, A, calls[i]).aut, calls, i + 1)
RECURSIVE Outcomes(_,_,_,_)
Outcomes(K, A, calls, i) == IF i > Len(calls) THEN <<>>
                            ELSE LET r == Apply(K, A, calls[i]) IN <<r.out>> \o Outcomes(K, r.aut, calls, i + 1)
=============================================================================
