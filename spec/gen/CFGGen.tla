------------------------------- MODULE CFGGen -------------------------------
(* Generator: every grammar with at most MaxProds productions over variables V (start symbol "S"),
   terminals T and bodies of length <= MaxBody, built one production at a time (the constructor
   CFG(start_symbol, productions) is the only way to build a grammar; there is no mutator).
   M1 invariants check the reference semantics against itself on every generated grammar. *)
EXTENDS CFGSem
CONSTANTS V, T, MaxProds, MaxBody, StartFirst
VARIABLES prods
Sym == V \cup T
Bodies == UNION { [1..k -> Sym] : k \in 0..MaxBody }
Init == prods = {}
Add(h, b) == /\ Cardinality(prods) < MaxProds /\ <<h, b>> \notin prods
             /\ (StartFirst /\ prods = {} => h = "S")
             /\ prods' = prods \cup {<<h, b>>}
Next == \E h \in V, b \in Bodies : Add(h, b)
Spec == Init /\ [][Next]_prods
G == MkG("S", prods, T)
(* a second, independent definition of membership: bounded leftmost derivation search *)
RECURSIVE Derive(_,_,_,_)
Derive(forms, seen, L, fuel) ==
  IF forms = {} \/ fuel = 0 THEN seen
  ELSE LET step(f) == LET I == { i \in DOMAIN f : f[i] \in V } IN
                      IF I = {} THEN {}
                      ELSE LET i == CHOOSE x \in I : \A y \in I : x <= y IN
                           { SubSeq(f, 1, i - 1) \o p[2] \o SubSeq(f, i + 1, Len(f)) : p \in { q \in prods : q[1] = f[i] } }
           nx == { f \in UNION { step(f) : f \in forms } : Cardinality({ i \in DOMAIN f : f[i] \in T }) <= L /\ Len(f) <= L + 2 } \ seen
       IN Derive(nx, seen \cup nx, L, fuel - 1)
DerivOK == LET D == Derive({<<"S">>}, {<<"S">>}, 2, 8)
               W == { f \in D : \A i \in DOMAIN f : f[i] \in T }
           IN W \subseteq Lang(G, 4)     \* every terminal form reached by rewriting is in the fixpoint language
EmptyOK == IsEmptyLang(G) <=> (Lang(G, 4) = {})
NullOK == ("S" \in NullVars(G)) <=> (<<>> \in Lang(G, 0))
TrimOK == Lang(TrimG(G), 4) = Lang(G, 4)
FiniteOK == IsFiniteLang(G) <=> ({ w \in Lang(G, 2 * MaxBody * MaxBody + 2) : Len(w) > MaxBody * MaxBody } = {})
=============================================================================
