------------------------------- MODULE PyRegexGen -------------------------------
(* Generator of the documented Python-regex subset as ASTs (C07): literals and escaped
   metacharacters, '.', sets and negated sets with ranges and shortcuts, alternation, groups,
   * + ? {m} {m,n}, \d \s \w.  Render gives the pattern text, Den its denotation over Sigma^<=L. *)
EXTENDS PyRegexSem
CONSTANTS Depth
Items == { [k |-> "c", c |-> c] : c \in {"a", "-", "]", ".", "*", "(", "+", "$", "["} } \cup { [k |-> "r", lo |-> "a", hi |-> "c"], [k |-> "r", lo |-> "0", hi |-> "9"], [k |-> "s", s |-> "d"],
                                                                         [k |-> "r", lo |-> "*", hi |-> "0"], [k |-> "r", lo |-> "+", hi |-> "9"], [k |-> "r", lo |-> " ", hi |-> "-"] }
Atoms == { [t |-> "lit", c |-> c] : c \in {"a", "b", ".", "*", "-", "(", "+", "?", " "} } \cup { [t |-> "dot"] }
         \cup { [t |-> "short", s |-> k] : k \in {"d", "s", "w"} }
         \cup { [t |-> "set", neg |-> n, items |-> <<i>>] : n \in BOOLEAN, i \in Items }
         \cup { [t |-> "set", neg |-> n, items |-> <<i, j>>] : n \in BOOLEAN, i \in Items, j \in { [k |-> "c", c |-> "b"], [k |-> "c", c |-> "-"], [k |-> "c", c |-> "*"], [k |-> "s", s |-> "d"] } }
PosSets == { [t |-> "set", neg |-> n, items |-> <<[k |-> "raw", c |-> c], i>>] : n \in BOOLEAN, c \in {"-", "]"},
                                                                             i \in { [k |-> "c", c |-> "a"], [k |-> "r", lo |-> "a", hi |-> "c"] } }
           \cup { [t |-> "set", neg |-> n, items |-> <<[k |-> "c", c |-> "a"], [k |-> "raw", c |-> "-"]>>] : n \in BOOLEAN }
EmptyAlt == { [t |-> "alt", l |-> x, r |-> [t |-> "empty"]] : x \in { [t |-> "lit", c |-> "a"], [t |-> "dot"] } }
            \cup { [t |-> "alt", l |-> [t |-> "empty"], r |-> [t |-> "lit", c |-> "a"]] }
Quant(X) == { [t |-> q, x |-> x] : q \in {"star", "plus", "opt"}, x \in X }
            \cup { [t |-> "rep", x |-> x, m |-> m] : x \in X, m \in {0, 1, 2} }
            \cup { [t |-> "rep2", x |-> x, m |-> 2, n |-> 2] : x \in X } \cup { [t |-> "rep2", x |-> x, m |-> 2, n |-> 10] : x \in X }
            \cup { [t |-> "rep2", x |-> x, m |-> 0, n |-> 1] : x \in X } \cup { [t |-> "rep2", x |-> x, m |-> 1, n |-> 2] : x \in X }
Bin(X, Y) == { [t |-> b, l |-> x, r |-> y] : b \in {"cat", "alt"}, x \in X, y \in Y }
Small == { [t |-> "lit", c |-> "a"], [t |-> "lit", c |-> "b"], [t |-> "dot"], [t |-> "set", neg |-> TRUE, items |-> <<[k |-> "c", c |-> "a"]>>] }
D1 == Atoms \cup Quant(Atoms) \cup Bin(Small, Small) \cup PosSets \cup Quant(PosSets) \cup EmptyAlt
      \cup { [t |-> "cat", l |-> x, r |-> [t |-> "lit", c |-> "b"]] : x \in EmptyAlt } \cup Quant(EmptyAlt)
StarCat == { [t |-> q, x |-> [t |-> "cat", l |-> x, r |-> [t |-> q2, x |-> y]]] : q \in {"star", "plus"}, q2 \in {"star", "plus", "opt"},
                                                                                  x \in Small, y \in { [t |-> "lit", c |-> "a"], [t |-> "lit", c |-> "b"] } }
D2 == D1 \cup Quant(Bin(Small, Small)) \cup Bin(Quant(Small), Small) \cup StarCat \cup Bin(StarCat, { [t |-> "lit", c |-> "c"] })
Tiny == { [t |-> "lit", c |-> "a"], [t |-> "dot"], [t |-> "set", neg |-> FALSE, items |-> <<[k |-> "r", lo |-> "a", hi |-> "c"]>>] }
D3 == D2 \cup Bin(Small, Quant(Small)) \cup Quant(Quant(Tiny)) \cup Bin(Bin(Tiny, Tiny), Tiny) \cup Bin(Tiny, Bin(Tiny, Tiny))
      \cup Quant(Bin(Quant(Tiny), Tiny))
(* Depth = 0: sets with a caret as a *member* (literal unless it is the first character of the set): after another item,
   first in a negated set, twice; alone, quantified and next to a literal.  Run with a Sigma that contains "^". *)
RawCaret == [k |-> "raw", c |-> "^"]
CaretItems == { [k |-> "c", c |-> "a"], [k |-> "c", c |-> "-"], [k |-> "r", lo |-> "a", hi |-> "b"], [k |-> "c", c |-> "^"] }
CaretSets == { [t |-> "set", neg |-> n, items |-> <<i, RawCaret>>] : n \in BOOLEAN, i \in CaretItems }
             \cup { [t |-> "set", neg |-> n, items |-> <<i, RawCaret, j>>] : n \in BOOLEAN, i \in CaretItems, j \in CaretItems }
             \cup { [t |-> "set", neg |-> TRUE, items |-> <<RawCaret>>], [t |-> "set", neg |-> TRUE, items |-> <<RawCaret, RawCaret>>] }
             \cup { [t |-> "set", neg |-> TRUE, items |-> <<RawCaret, i>>] : i \in CaretItems }
             \cup { [t |-> "set", neg |-> n, items |-> <<i, i>>] : n \in BOOLEAN, i \in CaretItems }
D0 == CaretSets \cup Quant(CaretSets) \cup Bin(CaretSets, { [t |-> "lit", c |-> "b"], [t |-> "lit", c |-> "^"] })
Family == IF Depth = 0 THEN D0 ELSE IF Depth = 1 THEN D1 ELSE IF Depth = 2 THEN D2 ELSE D3
VARIABLES ast, pat, lang
Init == ast \in Family /\ pat = Render(ast) /\ lang = Den(ast)
Next == UNCHANGED <<ast, pat, lang>>
Spec == Init /\ [][Next]_<<ast, pat, lang>>
=============================================================================
