------------------------------- MODULE RegexGen -------------------------------
(* Generator: every token string up to MaxLen over Tokens (well-formed and ill-formed alike).
   M1: the recursive-descent parser agrees with the denotation of rendered ASTs (ASTOK). *)
EXTENDS RegexAST
CONSTANTS Tokens, MaxLen
VARIABLES ts
Init == ts = <<>>
Next == Len(ts) < MaxLen /\ \E t \in Tokens : ts' = Append(ts, t)
Spec == Init /\ [][Next]_ts
ASTOK == ts = <<>> => \A a \in D2 : \A full \in BOOLEAN :
            LET p == Parse(Render(a, full), 3) IN p.class = "WF" /\ p.lang = Den(a, 3)
=============================================================================
