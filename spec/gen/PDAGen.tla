------------------------------- MODULE PDAGen -------------------------------
(* Generator: PDAs built through the public mutators (set_start_state, set_start_stack_symbol,
   add_transition, add_final_state) within the constants; `hist` hidden by VIEW.
   M1: the pop-summary semantics agrees with bounded configuration search wherever the latter
   accepts, and never accepts less with stack bound B on these small machines. *)
EXTENDS PDASem
CONSTANTS NQ, Gam, Sym, MaxPush, MaxT, MaxF
VARIABLES pda, hist
View == pda
Q == { "q" \o ToString(i) : i \in 0..(NQ - 1) }
Pushes == UNION { [1..k -> Gam] : k \in 0..MaxPush }
Init == /\ pda = [states |-> {"q0"}, start |-> "q0", z0 |-> "Z", finals |-> {}, delta |-> {}]
        /\ hist = << <<"set_start_state", "q0">>, <<"set_start_stack_symbol", "Z">> >>
AddT(p, a, X, q, g) == /\ Cardinality(pda.delta) < MaxT /\ <<p, a, X, q, g>> \notin pda.delta
                       /\ pda' = [pda EXCEPT !.delta = @ \cup {<<p, a, X, q, g>>}, !.states = @ \cup {p, q}]
                       /\ hist' = Append(hist, <<"add_transition", p, a, X, q, g>>)
AddF(q) == /\ Cardinality(pda.finals) < MaxF /\ q \notin pda.finals
           /\ pda' = [pda EXCEPT !.finals = @ \cup {q}, !.states = @ \cup {q}]
           /\ hist' = Append(hist, <<"add_final_state", q>>)
Next == \/ \E p, q \in Q, a \in Sym \cup {"eps"}, X \in Gam, g \in Pushes : AddT(p, a, X, q, g)
        \/ \E q \in Q : AddF(q)
Spec == Init /\ [][Next]_<<pda, hist>>
Words == UNION { [1..k -> Sym] : k \in 0..2 }
SemSound == \A w \in Words :
           /\ BAcceptsEmpty(pda, w, 5) => AcceptsEmpty(pda, w)
           /\ BAcceptsFinal(pda, w, 5) => AcceptsFinal(pda, w)
SemOK == \A w \in Words :
           /\ BAcceptsEmpty(pda, w, 4) => AcceptsEmpty(pda, w)
           /\ BAcceptsFinal(pda, w, 4) => AcceptsFinal(pda, w)
           /\ AcceptsEmpty(pda, w) => BAcceptsEmpty(pda, w, 7)
           /\ AcceptsFinal(pda, w) => BAcceptsFinal(pda, w, 7)
=============================================================================
