------------------------------- MODULE FCFGGen -------------------------------
(* Generator: feature grammars = context-free productions whose variable occurrences (head and
   body) carry an annotation for one feature n: "-" (unconstrained), a constant of Dom, or "x"
   (one agreement variable shared inside the production).
   A production is <<head, head annotation, body, body annotations>>. *)
EXTENDS CFGSem
CONSTANTS V, T, Dom, MaxProds, MaxBody, Anns
VARIABLES prods
Sym == V \cup T
Bodies == UNION { [1..k -> Sym] : k \in 0..MaxBody }
AnnsFor(b) == { a \in [1..Len(b) -> Anns] : \A i \in 1..Len(b) : b[i] \in T => a[i] = "-" }
Init == prods = {}
Next == /\ Cardinality(prods) < MaxProds
        /\ \E h \in V, ha \in Anns, b \in Bodies : \E ba \in AnnsFor(b) :
              /\ (prods = {} => h = "S") /\ <<h, ha, b, ba>> \notin prods
              /\ prods' = prods \cup {<<h, ha, b, ba>>}
Spec == Init /\ [][Next]_prods
=============================================================================
