------------------------------- MODULE FAGen -------------------------------
(* Generator: every automaton reachable through the public mutators within the constants.
   `hist` is a history variable hidden by VIEW (one generating path per abstract automaton);
   the harness replays hist on the real library and TraceFA re-folds it with FAObj!Apply. *)
EXTENDS FAObj
CONSTANTS Kind, NQ, Sym, MaxT, MaxRem, MaxS, MaxF
QS == [i \in 1..NQ |-> "q" \o ToString(i - 1)]
Q == Range(QS)
(* symmetry breaking: states enter the automaton in the order of QS (the harness replays every
   generated automaton under label permutations, which restores the full space) *)
Idx(p) == CHOOSE i \in DOMAIN QS : QS[i] = p
Allowed(S, p) == \A j \in 1..(Idx(p) - 1) : QS[j] \in S
VARIABLES aut, hist, nrem
vars == <<aut, hist, nrem>>
View == aut
Labels == IF Kind = "enfa" THEN Sym \cup {EPS} ELSE Sym
Init == aut = EmptyAut /\ hist = <<>> /\ nrem = 0
Do(c) == LET r == Apply(Kind, aut, c) IN
         /\ r.aut # aut /\ aut' = r.aut /\ hist' = Append(hist, c)
AddT(p, a, q) == Cardinality(aut.delta) < MaxT /\ Allowed(aut.states, p) /\ Allowed(aut.states \cup {p}, q) /\ Do(<<"add_transition", p, a, q>>) /\ UNCHANGED nrem
AddS(p) == Allowed(aut.states, p) /\ (Kind = "dfa" \/ Cardinality(aut.start) < MaxS) /\ Do(<<"add_start_state", p>>) /\ UNCHANGED nrem
AddF(p) == Allowed(aut.states, p) /\ Cardinality(aut.final) < MaxF /\ Do(<<"add_final_state", p>>) /\ UNCHANGED nrem
RemT(p, a, q) == nrem < MaxRem /\ Do(<<"remove_transition", p, a, q>>) /\ nrem' = nrem + 1
RemS(p) == nrem < MaxRem /\ Do(<<"remove_start_state", p>>) /\ nrem' = nrem + 1
RemF(p) == nrem < MaxRem /\ Do(<<"remove_final_state", p>>) /\ nrem' = nrem + 1
Next == \/ \E p, q \in Q, a \in Labels : AddT(p, a, q) \/ RemT(p, a, q)
        \/ \E p \in Q : AddS(p) \/ AddF(p) \/ RemS(p) \/ RemF(p)
Spec == Init /\ [][Next]_vars
(* model-level sanity of the API machine, checked on every generated automaton *)
TypeOK == /\ aut.start \subseteq aut.states /\ aut.final \subseteq aut.states
          /\ \A t \in aut.delta : t[1] \in aut.states /\ t[3] \in aut.states
          /\ (Kind # "enfa" => EpsFree(aut))
          /\ (Kind = "dfa" => IsDet(aut))
(* the oracle checked against itself (M1): subset construction is deterministic and equivalent *)
DetOK == LET D == DetA(aut) IN IsDet(D) /\ EpsFree(D) /\ Equiv(aut, D)
RevOK == Equiv(RevA(RevA(aut)), aut)
LangOK == \A w \in WordsUpTo(Sym, 2) : Accepts(aut, w) <=> Accepts(DetA(aut), w)
EmptyOK == IsEmptyLang(aut) <=> (\A w \in WordsUpTo(Sym, 4) : ~Accepts(aut, w))
=============================================================================
