------------------------------- MODULE FSGen -------------------------------
(* Generator: consistently typed feature structures of depth <= 2.  Atomic features AF hang under
   the root or under a complex feature of CF; a leaf is unspecified or carries an atom; two leaves
   may be made the same node (shared variable).  Built by add_content calls recorded in hist.
   M1: unification laws of FSSem on every generated structure. *)
EXTENDS FSSem
CONSTANTS AF, CF, Atoms, MaxOps
VARIABLES fs, hist
View == fs
LeafPaths == { <<f>> : f \in AF } \cup { <<c, f>> : c \in CF, f \in AF }
Init == fs = [paths |-> {<<>>}, atoms |-> {}, same |-> {}] /\ hist = <<>>
HasParent(p) == Front(p) \in fs.paths
AddNode(c) == /\ <<c>> \notin fs.paths
              /\ fs' = [fs EXCEPT !.paths = @ \cup {<<c>>}] /\ hist' = Append(hist, <<"node", <<c>>>>)
AddLeaf(p, v) == /\ p \notin fs.paths /\ HasParent(p)
                 /\ fs' = [fs EXCEPT !.paths = @ \cup {p}, !.atoms = IF v = "none" THEN @ ELSE @ \cup {<<p, v>>}]
                 /\ hist' = Append(hist, <<"leaf", p, v>>)
Share(p, q) == /\ p \notin fs.paths /\ HasParent(p) /\ q \in fs.paths /\ q \in LeafPaths
               /\ fs' = [fs EXCEPT !.paths = @ \cup {p}, !.same = @ \cup {<<p, q>>},
                                   !.atoms = @ \cup { <<p, a[2]>> : a \in { b \in fs.atoms : b[1] = q \/ <<b[1], q>> \in TC(SymR(fs.same)) } }]
               /\ hist' = Append(hist, <<"share", p, q>>)
Next == /\ Len(hist) < MaxOps
        /\ \/ \E c \in CF : AddNode(c)
           \/ \E p \in LeafPaths, v \in Atoms \cup {"none"} : AddLeaf(p, v)
           \/ \E p, q \in LeafPaths : Share(p, q)
Spec == Init /\ [][Next]_<<fs, hist>>
LawsOK == LET u == Unify(fs, fs) n == Norm(fs) IN
          /\ u.ok /\ u.paths = n.paths /\ u.atoms = n.atoms /\ u.same = n.same      \* idempotent
          /\ Subsumes(fs, fs)
=============================================================================
