------------------------------- MODULE RegexASTGen -------------------------------
(* Generator: token strings rendered from ASTs (depth <= 2 over two symbols) with minimal
   parentheses, with full parentheses, and wrapped in one, two or three redundant pairs of
   parentheses -- well-formed texts longer than the exhaustive token-string bound reaches. *)
EXTENDS RegexAST
VARIABLES rs
Wrapped(s, n) == IF n = 0 THEN s ELSE IF n = 1 THEN <<"(">> \o s \o <<")">>
                 ELSE IF n = 2 THEN <<"(", "(">> \o s \o <<")", ")">> ELSE <<"(", "(", "(">> \o s \o <<")", ")", ")">>
D3 == D2 \cup Bin(D1, D1)
(* groups whose alternatives are escaped parentheses, concatenated and starred: '((a|\() (b|a))*' *)
EscLeaf == { [t |-> "sym", s |-> "a"], [t |-> "sym", s |-> "E("], [t |-> "sym", s |-> "E)"], [t |-> "sym", s |-> "E_"] }   \* E_ = escaped blank
EscAlt == { [t |-> "alt", l |-> x, r |-> y] : x \in EscLeaf, y \in EscLeaf }
D4 == Un(Bin(EscAlt, EscAlt)) \cup Bin(EscAlt, Un(EscAlt)) \cup Un(Bin(EscLeaf, EscAlt))
InitA == rs \in { Wrapped(Render(a, full), n) : a \in D3, full \in BOOLEAN, n \in 0..3 }
                 \cup { Render(a, full) : a \in D4, full \in BOOLEAN }
NextA == UNCHANGED rs
SpecA == InitA /\ [][NextA]_rs
=============================================================================
