------------------------------- MODULE FAGen2 -------------------------------
(* Generator for *pairs* of automata (C02, C03): a heap of two objects.  Object A is built through
   the public mutators; object B is then either built independently (Mode = "indep") or starts as
   a copy of A's build history and is perturbed by up to MaxB further calls over a state pool
   enlarged by one extra state (Mode = "derive": explicit sink states, dead and unreachable
   states, extra symbols -- pairs with equal or nearly equal languages).  hist variables are
   hidden by VIEW. *)
EXTENDS FAObj
CONSTANTS KindA, KindB, NQ, SymA, SymB, MaxTA, MaxTB, MaxB, MaxS, MaxF, Mode
VARIABLES a, b, ha, hb, phase, nb
vars == <<a, b, ha, hb, phase, nb>>
View == <<a, b, phase>>
QName(i) == "q" \o ToString(i - 1)
QA == { QName(i) : i \in 1..NQ }
QB == IF Mode = "derive" THEN QA \cup {QName(NQ + 1)} ELSE QA
Lab(K, S) == IF K = "enfa" THEN S \cup {EPS} ELSE S
Init == a = EmptyAut /\ b = EmptyAut /\ ha = <<>> /\ hb = <<>> /\ phase = "A" /\ nb = 0
Lim(K, X, c) == CASE c[1] = "add_transition" -> TRUE
                  [] c[1] = "add_start_state" -> (K = "dfa" \/ Cardinality(X.start) < MaxS)
                  [] c[1] = "add_final_state" -> Cardinality(X.final) < MaxF
                  [] OTHER -> TRUE
DoA(c) == LET r == Apply(KindA, a, c) IN
          /\ phase = "A" /\ Lim(KindA, a, c) /\ r.aut # a /\ Cardinality(r.aut.delta) <= MaxTA
          /\ a' = r.aut /\ ha' = Append(ha, c) /\ UNCHANGED <<b, hb, phase, nb>>
Fork == /\ phase = "A" /\ phase' = "B"
        /\ IF Mode = "derive" /\ KindA = KindB THEN b' = a /\ hb' = ha ELSE b' = EmptyAut /\ hb' = <<>>
        /\ UNCHANGED <<a, ha, nb>>
DoB(c) == LET r == Apply(KindB, b, c) IN
          /\ phase = "B" /\ Lim(KindB, b, c) /\ r.aut # b /\ Cardinality(r.aut.delta) <= MaxTB
          /\ (Mode = "derive" => nb < MaxB)
          /\ b' = r.aut /\ hb' = Append(hb, c) /\ nb' = nb + 1 /\ UNCHANGED <<a, ha, phase>>
CallsOn(QQ, LL) == { <<"add_transition", p, x, q>> : p \in QQ, x \in LL, q \in QQ }
                   \cup { <<"add_start_state", p>> : p \in QQ } \cup { <<"add_final_state", p>> : p \in QQ }
DeriveExtra == IF Mode = "derive" THEN { <<"remove_transition", t[1], t[2], t[3]>> : t \in b.delta }
                                       \cup { <<"remove_final_state", p>> : p \in b.final } ELSE {}
Next == \/ \E c \in CallsOn(QA, Lab(KindA, SymA)) : DoA(c)
        \/ Fork
        \/ \E c \in CallsOn(QB, Lab(KindB, SymB)) \cup DeriveExtra : DoB(c)
Spec == Init /\ [][Next]_vars
(* M1: the equivalence oracle agrees with bounded languages on every generated pair *)
EquivOK == phase = "B" =>
   (Equiv(a, b) <=> (Lang(a, SymA \cup SymB, 4) = Lang(b, SymA \cup SymB, 4)))
(* M1: product predicates agree with the word-level definitions *)
AlgebraOK == phase = "B" =>
   LET Sg == SymA \cup SymB  W == WordsUpTo(Sg, 3) IN
   /\ IsUnion(a, b, UnionA(a, b))
   /\ \A w \in W : Accepts(ConcatA(a, b), w) <=> \E k \in 0..Len(w) : Accepts(a, SubSeq(w, 1, k)) /\ Accepts(b, SubSeq(w, k + 1, Len(w)))
   /\ \A w \in W : Accepts(RevA(a), w) <=> Accepts(a, Reverse(w))
=============================================================================
