------------------------------- MODULE IGGen -------------------------------
(* Generator: every reduced-form indexed grammar with at most MaxRules rules over NT and IDX
   (start "S").  M1: the on-demand fixpoint agrees with the full fixpoint over idx x SUBSET nts. *)
EXTENDS IGSem
CONSTANTS NT, IDX, MaxRules
VARIABLES rules
AllRules == { <<"end", A, "a">> : A \in NT } \cup { <<"dup", A, B, C>> : A, B, C \in NT }
            \cup { <<"push", A, B, f>> : A, B \in NT, f \in IDX } \cup { <<"pop", f, A, B>> : f \in IDX, A, B \in NT }
Init == rules = {}
Next == Cardinality(rules) < MaxRules /\ \E r \in AllRules \ rules : rules' = rules \cup {r}
Spec == Init /\ [][Next]_rules
G == [start |-> "S", nts |-> NT, idx |-> IDX, rules |-> rules]
LazyOK == NonEmpty(G) = NonEmptyFull(G)
=============================================================================
