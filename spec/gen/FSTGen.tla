------------------------------- MODULE FSTGen -------------------------------
(* Generator: transducers built through add_transition / add_start_state / add_final_state whose
   epsilon-input cycles write nothing (the property's domain).  hist hidden by VIEW. *)
EXTENDS FSTSem
CONSTANTS NQ, Sym, Out, MaxOut, MaxT, MaxS, MaxF
VARIABLES fst, hist
View == fst
Q == { "q" \o ToString(i) : i \in 0..(NQ - 1) }
Outs == UNION { [1..k -> Out] : k \in 0..MaxOut }
Init == fst = [states |-> {}, starts |-> {}, finals |-> {}, delta |-> {}] /\ hist = <<>>
AddT(p, a, q, o) == LET f2 == [fst EXCEPT !.delta = @ \cup {<<p, a, q, o>>}, !.states = @ \cup {p, q}] IN
                    /\ Cardinality(fst.delta) < MaxT /\ <<p, a, q, o>> \notin fst.delta
                    /\ EpsCyclesSilent(f2)
                    /\ fst' = f2 /\ hist' = Append(hist, <<"add_transition", p, a, q, o>>)
AddS(p) == /\ Cardinality(fst.starts) < MaxS /\ p \notin fst.starts
           /\ fst' = [fst EXCEPT !.starts = @ \cup {p}, !.states = @ \cup {p}] /\ hist' = Append(hist, <<"add_start_state", p>>)
AddF(p) == /\ Cardinality(fst.finals) < MaxF /\ p \notin fst.finals
           /\ fst' = [fst EXCEPT !.finals = @ \cup {p}, !.states = @ \cup {p}] /\ hist' = Append(hist, <<"add_final_state", p>>)
Next == \/ \E p, q \in Q, a \in Sym \cup {"eps"}, o \in Outs : AddT(p, a, q, o)
        \/ \E p \in Q : AddS(p) \/ AddF(p)
Spec == Init /\ [][Next]_<<fst, hist>>
(* M1: algebraic sanity of the relational oracle on every generated transducer *)
Words == UNION { [1..k -> Sym] : k \in 0..2 }
AlgOK == \A w \in Words : /\ RUnion(fst, fst, w) = Outputs(fst, w)
                          /\ (StarDefined(fst) => Outputs(fst, w) \subseteq RStar(fst, w))
                          /\ (StarDefined(fst) /\ Len(w) = 2 => { o1 \o o2 : o1 \in Outputs(fst, <<w[1]>>), o2 \in Outputs(fst, <<w[2]>>) } \subseteq RStar(fst, w))
=============================================================================
