------------------------------- MODULE EBNFGen -------------------------------
(* Generator: EBNF texts = up to MaxLines productions "head -> body" whose bodies are token
   strings of the regex syntax (RegexSem), up to MaxToks tokens each. *)
EXTENDS RegexSem
CONSTANTS Heads, Tokens, MaxLines, MaxToks
VARIABLES lines
Init == lines = <<>>
NewLine(h) == Len(lines) < MaxLines /\ (lines = <<>> => h = "S") /\ lines' = Append(lines, <<h, <<>>>>)
AddTok(t) == /\ lines # <<>> /\ Len(lines[Len(lines)][2]) < MaxToks
             /\ lines' = [lines EXCEPT ![Len(lines)] = <<@[1], Append(@[2], t)>>]
Next == (\E h \in Heads : NewLine(h)) \/ (\E t \in Tokens : AddTok(t))
Spec == Init /\ [][Next]_lines
=============================================================================
