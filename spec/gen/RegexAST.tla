------------------------------- MODULE RegexAST -------------------------------
(* Abstract syntax trees of regular expressions, their denotation and their rendering to token
   strings with minimal or full parentheses (used by RegexGen's M1 invariant and by RegexASTGen). *)
EXTENDS RegexSem
(* ASTs of depth <= 2 over two symbols, rendered with minimal and with redundant parentheses *)
Leaf == { [t |-> "sym", s |-> "a"], [t |-> "sym", s |-> "b"], [t |-> "eps"] }
Un(X) == { [t |-> "star", x |-> x] : x \in X }
Bin(X, Y) == { [t |-> b, l |-> x, r |-> y] : b \in {"cat", "alt"}, x \in X, y \in Y }
D1 == Leaf \cup Un(Leaf) \cup Bin(Leaf, Leaf)
D2 == D1 \cup Un(Bin(Leaf, Leaf)) \cup Bin(D1, Leaf) \cup Bin(Leaf, D1)
RECURSIVE Den(_,_), Render(_,_)
Den(a, L) == CASE a.t = "sym" -> {<<"s:" \o a.s>>} [] a.t = "eps" -> {<<>>}
               [] a.t = "star" -> RStar(Den(a.x, L), L)
               [] a.t = "cat" -> RCat(Den(a.l, L), Den(a.r, L), L)
               [] a.t = "alt" -> Den(a.l, L) \cup Den(a.r, L)
Prec(a) == CASE a.t \in {"sym", "eps"} -> 3 [] a.t = "star" -> 3 [] a.t = "cat" -> 2 [] a.t = "alt" -> 1
Wrap(a, need, full) == IF full \/ Prec(a) < need THEN <<"(">> \o Render(a, full) \o <<")">> ELSE Render(a, full)
Render(a, full) == CASE a.t = "sym" -> <<a.s>> [] a.t = "eps" -> <<"$">>
                     [] a.t = "star" -> (IF a.x.t \in {"sym", "eps"} /\ ~full THEN Render(a.x, full) ELSE <<"(">> \o Render(a.x, full) \o <<")">>) \o <<"*">>
                     [] a.t = "cat" -> Wrap(a.l, 2, full) \o Wrap(a.r, 3, full)
                     [] a.t = "alt" -> Wrap(a.l, 1, full) \o <<"|">> \o Wrap(a.r, 2, full)
=============================================================================
