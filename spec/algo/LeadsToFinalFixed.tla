------------------------------- MODULE LeadsToFinalFixed -------------------------------
(* FiniteAutomaton._get_states_leading_to_final after the repair (backward reachability from the
   final states with a worklist popped in an arbitrary order): the result is exactly the set of
   states from which a final state is reachable, for every graph and every pop order. *)
EXTENDS Naturals, Sequences, FiniteSets, TLC
CONSTANTS N, MaxE
Q == 1..N
VARIABLES edges, finals, leading, todo, pc
vars == <<edges, finals, leading, todo, pc>>
Succ(s) == { e[2] : e \in { f \in edges : f[1] = s } }
Pred(s) == { e[1] : e \in { f \in edges : f[2] = s } }
RECURSIVE Reach(_)
Reach(S) == LET T == S \cup UNION { Succ(s) : s \in S } IN IF T = S THEN S ELSE Reach(T)
CoReach == { s \in Q : Reach({s}) \cap finals # {} }
Init == /\ edges \in { E \in SUBSET (Q \X Q) : Cardinality(E) <= MaxE }
        /\ finals \in SUBSET Q /\ leading = finals /\ todo = finals /\ pc = "loop"
Pop == /\ pc = "loop" /\ todo # {}
       /\ \E x \in todo : LET new == Pred(x) \ leading IN
            /\ leading' = leading \cup new /\ todo' = (todo \ {x}) \cup new
       /\ UNCHANGED <<edges, finals, pc>>
Finish == pc = "loop" /\ todo = {} /\ pc' = "done" /\ UNCHANGED <<edges, finals, leading, todo>>
Next == Pop \/ Finish
Spec == Init /\ [][Next]_vars
Exact == pc = "done" => leading = CoReach
Sound == leading \subseteq CoReach
=============================================================================
