------------------------------- MODULE Hopcroft -------------------------------
(* pyformlang's DeterministicFiniteAutomaton._get_partition as a state machine.
   Trash state None is 0.  Nondeterminism: the (fixed) iteration order of the symbol set. *)
EXTENDS HopcroftOps
CONSTANTS N, Sym
Q == 1..N
QT == 0..N
VARIABLES delta, finals, symorder,   \* the DFA (delta total into QT; 0 = no transition) and the set order
          part,      \* sequence of sets (class index - 1)
          plist,     \* stack of <<class, symbol>>
          incl,      \* set of <<class, symbol>> marked as included
          pc
vars == <<delta, finals, symorder, part, plist, incl, pc>>
D(q, a) == IF q = 0 THEN 0 ELSE delta[<<q, a>>]
DL == [x \in QT \X Sym |-> D(x[1], x[2])]
Init == /\ delta \in [Q \X Sym -> QT]
        /\ finals \in (SUBSET Q) \ {{}}
        /\ symorder \in SetToSeqs(Sym)
        /\ LET s0 == InitState(QT, symorder, finals) IN part = s0[1] /\ plist = s0[2] /\ incl = s0[3]
        /\ pc = "loop"
ClassOf(P, q) == CHOOSE i \in DOMAIN P : q \in P[i]
Pop == /\ pc = "loop" /\ plist # <<>>
       /\ LET r == PopResult(DL, QT, symorder, part, plist, incl)
          IN /\ part' = r[1] /\ plist' = r[2] /\ incl' = r[3]
       /\ UNCHANGED <<delta, finals, symorder, pc>>
Finish == pc = "loop" /\ plist = <<>> /\ pc' = "done" /\ UNCHANGED <<delta, finals, symorder, part, plist, incl>>
Next == Pop \/ Finish
Spec == Init /\ [][Next]_vars
\* reference: Moore refinement on the completed automaton
RECURSIVE Moore(_)
Moore(E) == LET E2 == { p \in E : \A a \in Sym : <<D(p[1], a), D(p[2], a)>> \in E }
            IN IF E2 = E THEN E ELSE Moore(E2)
Nerode == Moore({ p \in QT \X QT : (p[1] \in finals) <=> (p[2] \in finals) })
Correct == pc = "done" => \A p, q \in QT : (<<p, q>> \in Nerode) <=> (ClassOf(part, p) = ClassOf(part, q))
IsPartition == /\ UNION { part[i] : i \in DOMAIN part } = QT
               /\ \A i, j \in DOMAIN part : i # j => part[i] \cap part[j] = {}
=============================================================================
