------------------------------- MODULE Hopcroft -------------------------------
(* pyformlang's DeterministicFiniteAutomaton._get_partition as a state machine.
   Trash state None is 0.  Nondeterminism: the (fixed) iteration order of the symbol set. *)
EXTENDS Naturals, Sequences, FiniteSets, SequencesExt, TLC
CONSTANTS N, Sym
Q == 1..N
QT == 0..N
VARIABLES delta, finals, symorder,   \* the DFA (delta total into QT; 0 = no transition) and the set order
          part,      \* sequence of sets (class index - 1)
          plist,     \* stack of <<class, symbol>>
          incl,      \* set of <<class, symbol>> marked as included
          pc
vars == <<delta, finals, symorder, part, plist, incl, pc>>
D(q, a) == IF q = 0 THEN 0 ELSE delta[<<q, a>>]
Init == /\ delta \in [Q \X Sym -> QT]
        /\ finals \in (SUBSET Q) \ {{}}
        /\ symorder \in SetToSeqs(Sym)
        /\ part = << finals, (Q \ finals) \cup {0} >>
        /\ LET toadd == IF Cardinality((Q \ finals) \cup {0}) < Cardinality(finals) THEN 2 ELSE 1
           IN /\ plist = [i \in DOMAIN symorder |-> <<toadd, symorder[i]>>]
              /\ incl = { <<toadd, a>> : a \in Sym }
        /\ pc = "loop"
ClassOf(P, q) == CHOOSE i \in DOMAIN P : q \in P[i]
\* process the inserts for one split (valid class v, new class nw) over all symbols in set order
RECURSIVE Inserts(_,_,_,_,_,_)
Inserts(P, pl, inc, v, nw, k) ==
  IF k > Len(symorder) THEN <<pl, inc>>
  ELSE LET a == symorder[k]
           tgt == IF <<v, a>> \in inc THEN nw
                  ELSE IF Cardinality(P[v]) < Cardinality(P[nw]) THEN v ELSE nw
       IN Inserts(P, Append(pl, <<tgt, a>>), inc \cup {<<tgt, a>>}, v, nw, k + 1)
\* split all valid classes (ascending index), threading partition / list / inclusion
RECURSIVE Splits(_,_,_,_,_)
Splits(P, pl, inc, valid, inverse) ==
  IF valid = {} THEN <<P, pl, inc>>
  ELSE LET v == CHOOSE x \in valid : \A y \in valid : x <= y
           moved == P[v] \cap inverse
           P2 == Append([P EXCEPT ![v] = @ \ moved], moved)
           nw == Len(P2)
           r == Inserts(P2, pl, inc, v, nw, 1)
       IN Splits(P2, r[1], r[2], valid \ {v}, inverse)
Pop == /\ pc = "loop" /\ plist # <<>>
       /\ LET top == Last(plist)
              c == top[1]  a == top[2]
              inverse == { q \in QT : D(q, a) \in part[c] }
              valid == { i \in DOMAIN part : (part[i] \cap inverse # {}) /\ ~(part[i] \subseteq inverse) }
              r == Splits(part, Front(plist), incl \ {top}, valid, inverse)
          IN /\ part' = r[1] /\ plist' = r[2] /\ incl' = r[3]
       /\ UNCHANGED <<delta, finals, symorder, pc>>
Finish == pc = "loop" /\ plist = <<>> /\ pc' = "done" /\ UNCHANGED <<delta, finals, symorder, part, plist, incl>>
Next == Pop \/ Finish
Spec == Init /\ [][Next]_vars
\* reference: Moore refinement on the completed automaton
RECURSIVE Moore(_)
Moore(E) == LET E2 == { p \in E : \A a \in Sym : <<D(p[1], a), D(p[2], a)>> \in E }
            IN IF E2 = E THEN E ELSE Moore(E2)
Nerode == Moore({ p \in QT \X QT : (p[1] \in finals) <=> (p[2] \in finals) })
Correct == pc = "done" => \A p, q \in QT : (<<p, q>> \in Nerode) <=> (ClassOf(part, p) = ClassOf(part, q))
IsPartition == /\ UNION { part[i] : i \in DOMAIN part } = QT
               /\ \A i, j \in DOMAIN part : i # j => part[i] \cap part[j] = {}
=============================================================================
