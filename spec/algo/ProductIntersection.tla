------------------------------- MODULE ProductIntersection -------------------------------
(* EpsilonNFA.get_intersection as a state machine shaped like the code: the start pairs are the
   pairs of the two epsilon-closures of the start states, the final pairs are F0 x F1, a LIFO
   `to_process` of pairs with `processed` filled at push time; one action per pop, which visits
   the *common* symbols (symbols that label a transition of both operands: `self.symbols &
   other.symbols`) in an arbitrary order and adds a transition to every pair of the two closed
   successor sets.  The result has no epsilon transition.
   Every pair of epsilon-NFAs with states 1..N, start state sets StartChoices and at most MaxTA /
   MaxTB transitions is an initial state.
   Postconditions (pc = "done"), for every pair and every order:
     LangOK     the product accepts w iff both operands have an accepting run on w (runs are judged
                by reachability in the configuration graph (state, position) of each operand);
     PairsReal  every pair built is reachable in both operands by a common word (no junk states
                that could be made final by accident);
   Variant = "code" is the algorithm as written; "noEcloseOther" forgets the closure on the second
   operand, "finalsEither" marks a pair final when one side is final (TLC must refute LangOK). *)
EXTENDS Naturals, Sequences, FiniteSets, TLC, SequencesExt
CONSTANTS N, Sym, MaxTA, MaxTB, MaxW, Variant
Q == 1..N
Eps == "eps"
Lab == Sym \cup {Eps}
VARIABLES ea, sa, fa, eb, sb, fb, pstarts, todo, processed, ptrans, pc
vars == <<ea, sa, fa, eb, sb, fb, pstarts, todo, processed, ptrans, pc>>

Succ(E, q, x) == { e[3] : e \in { f \in E : f[1] = q /\ f[2] = x } }
RECURSIVE EcloseSet(_, _)
EcloseSet(E, S) == LET T == S \cup UNION { Succ(E, q, Eps) : q \in S } IN IF T = S THEN S ELSE EcloseSet(E, T)
Move(E, S, x) == UNION { Succ(E, q, x) : q \in S }
SymsOf(E) == { e[2] : e \in E } \ {Eps}
Common == SymsOf(ea) \cap SymsOf(eb)
CloseB(S) == IF Variant = "noEcloseOther" THEN S ELSE EcloseSet(eb, S)

Init == /\ ea \in { E \in SUBSET (Q \X Lab \X Q) : Cardinality(E) <= MaxTA }
        /\ eb \in { E \in SUBSET (Q \X Lab \X Q) : Cardinality(E) <= MaxTB }
        /\ sa = {1} /\ sb = {1}
        /\ fa \in SUBSET Q /\ fb \in SUBSET Q
        /\ pstarts = EcloseSet(ea, sa) \X CloseB(sb)
        /\ \E sq \in SetToSeqs(EcloseSet(ea, sa) \X CloseB(sb)) : todo = sq
        /\ processed = EcloseSet(ea, sa) \X CloseB(sb)
        /\ ptrans = {} /\ pc = "loop"

RECURSIVE Push(_, _, _)
Push(prs, i, st) ==      \* prs: the new pairs of one symbol, in an arbitrary order
  IF i > Len(prs) THEN st ELSE
  IF prs[i] \in st.pr THEN Push(prs, i + 1, st)
  ELSE Push(prs, i + 1, [tp |-> Append(st.tp, prs[i]), pr |-> st.pr \cup {prs[i]}])

RECURSIVE ProcSyms(_, _, _, _)
ProcSyms(cur, sq, i, st) ==
  IF i > Len(sq) THEN st ELSE
  LET x == sq[i]
      tg == EcloseSet(ea, Move(ea, {cur[1]}, x)) \X CloseB(Move(eb, {cur[2]}, x))
      st2 == Push(CHOOSE s \in SetToSeqs(tg) : TRUE, 1, [tp |-> st.tp, pr |-> st.pr])
  IN ProcSyms(cur, sq, i + 1, [tp |-> st2.tp, pr |-> st2.pr, dt |-> st.dt \cup { <<cur, x, p>> : p \in tg }])

Pop == /\ pc = "loop" /\ todo # <<>>
       /\ LET cur == todo[Len(todo)]
              rest == SubSeq(todo, 1, Len(todo) - 1) IN
          \E sq \in SetToSeqs(Common) :
            LET st == ProcSyms(cur, sq, 1, [tp |-> rest, pr |-> processed, dt |-> ptrans]) IN
            /\ todo' = st.tp /\ processed' = st.pr /\ ptrans' = st.dt
       /\ UNCHANGED <<ea, sa, fa, eb, sb, fb, pstarts, pc>>
Finish == /\ pc = "loop" /\ todo = <<>> /\ pc' = "done"
          /\ UNCHANGED <<ea, sa, fa, eb, sb, fb, pstarts, todo, processed, ptrans>>
Next == Pop \/ Finish
Spec == Init /\ [][Next]_vars

(* ---- reference ---- *)
Words == UNION { [1..n -> Sym] : n \in 0..MaxW }
RECURSIVE ConfReach(_, _, _)
ConfReach(E, C, w) ==
  LET Nx(c) == { <<q2, c[2]>> : q2 \in Succ(E, c[1], Eps) } \cup
               (IF c[2] < Len(w) THEN { <<q2, c[2] + 1>> : q2 \in Succ(E, c[1], w[c[2] + 1]) } ELSE {})
      T == C \cup UNION { Nx(c) : c \in C }
  IN IF T = C THEN C ELSE ConfReach(E, T, w)
NAccepts(E, S, F, w) == \E c \in ConfReach(E, { <<s, 0>> : s \in S }, w) : c[2] = Len(w) /\ c[1] \in F
After(E, S, w) == { c[1] : c \in { d \in ConfReach(E, { <<s, 0>> : s \in S }, w) : d[2] = Len(w) } }

PFinal(p) == IF Variant = "finalsEither" THEN p[1] \in fa \/ p[2] \in fb ELSE p[1] \in fa /\ p[2] \in fb
RECURSIVE PRun(_, _, _)
PRun(cur, w, i) == IF i > Len(w) THEN \E p \in cur : PFinal(p)
                   ELSE PRun({ t[3] : t \in { u \in ptrans : u[1] \in cur /\ u[2] = w[i] } }, w, i + 1)
PAccepts(w) == PRun(pstarts, w, 1)

(* ---- properties ---- *)
TodoProcessed == \A i \in 1..Len(todo) : todo[i] \in processed
NoDuplicateWork == \A i, j \in 1..Len(todo) : i # j => todo[i] # todo[j]
EndsKnown == \A t \in ptrans : t[1] \in processed /\ t[3] \in processed /\ t[2] \in Common
LangOK == pc = "done" => \A w \in Words : PAccepts(w) = (NAccepts(ea, sa, fa, w) /\ NAccepts(eb, sb, fb, w))
PairsReal == pc = "done" => \A p \in processed :
               \E w \in UNION { [1..n -> Sym] : n \in 0..(N * N) } : p[1] \in After(ea, sa, w) /\ p[2] \in After(eb, sb, w)
=============================================================================
