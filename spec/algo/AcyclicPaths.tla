------------------------------- MODULE AcyclicPaths -------------------------------
(* FiniteAutomaton.is_acyclic as a state machine shaped like the code: a LIFO of (state, set of
   states visited on the path that led here), seeded with the start states; a pop answers False when
   the state is already on its own path, otherwise pushes one entry per outgoing transition
   (labelled or epsilon, parallel transitions give parallel entries) with a copy of the path; the
   answer is True when the stack runs empty.  The transitions of a state are visited in an
   arbitrary order.  Every graph with states 1..N, labels {a, eps} and at most MaxE transitions and
   every set of start states is an initial state.
     Exact       the answer is True iff no cycle is reachable from a start state;
     PathsReal   every stacked entry is a real path: its visited set is connected to the state;
     Terminates  the search ends (paths cannot grow beyond N states): checked as a bound on the
                 length of every visited set and by the absence of a behaviour longer than Bound.
   Variant "sharedVisited" passes the *same* visited set to every successor (a classic slip: a
   diamond is then reported as a cycle) and must be refuted. *)
EXTENDS Naturals, Sequences, FiniteSets, TLC, SequencesExt
CONSTANTS N, MaxE, Variant
Q == 1..N
Lab == {"a", "eps"}
VARIABLES edges, starts, stack, shared, answer
vars == <<edges, starts, stack, shared, answer>>
Out(q) == { e \in edges : e[1] = q }
Succ(q) == { e[3] : e \in Out(q) }
RECURSIVE Reach(_)
Reach(S) == LET T == S \cup UNION { Succ(s) : s \in S } IN IF T = S THEN S ELSE Reach(T)
OnCycle(q) == q \in Reach(Succ(q))
RefAcyclic == \A q \in Reach(starts) : ~OnCycle(q)

Init == /\ edges \in { E \in SUBSET (Q \X Lab \X Q) : Cardinality(E) <= MaxE }
        /\ starts \in SUBSET Q
        /\ \E sq \in SetToSeqs(starts) : stack = [i \in 1..Len(sq) |-> <<sq[i], {}>>]
        /\ shared = {} /\ answer = "running"
Pop == /\ answer = "running" /\ stack # <<>>
       /\ LET top == stack[Len(stack)]
              cur == top[1]
              vis == IF Variant = "sharedVisited" THEN shared ELSE top[2]
              rest == SubSeq(stack, 1, Len(stack) - 1) IN
          IF cur \in vis THEN answer' = "False" /\ UNCHANGED <<stack, shared>>
          ELSE /\ \E sq \in SetToSeqs(Out(cur)) :
                    stack' = rest \o [i \in 1..Len(sq) |-> <<sq[i][3], vis \cup {cur}>>]
               /\ shared' = IF Variant = "sharedVisited" THEN shared \cup {cur} ELSE shared
               /\ UNCHANGED answer
       /\ UNCHANGED <<edges, starts>>
Finish == /\ answer = "running" /\ stack = <<>> /\ answer' = "True"
          /\ UNCHANGED <<edges, starts, stack, shared>>
Next == Pop \/ Finish
Spec == Init /\ [][Next]_vars

Exact == answer # "running" => (answer = "True") = RefAcyclic
PathsReal == \A i \in 1..Len(stack) : LET v == stack[i][2] q == stack[i][1] IN
               v = {} \/ ((\E p \in v : q \in Succ(p)) /\ v \subseteq Reach(starts))
PathsBounded == \A i \in 1..Len(stack) : Cardinality(stack[i][2]) <= N
Bounded == TLCGet("level") <= 200
=============================================================================
