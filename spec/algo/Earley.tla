------------------------------- MODULE Earley -------------------------------
(* FCFG._get_final_state without features: the Earley recogniser as pyformlang codes it
   (Repaired = FALSE) and with nullable-aware prediction, prediction at the last position and
   a snapshot in the completer (Repaired = TRUE).  Items are <<production index, begin, end, dot>>;
   production 0 is the dummy Gamma -> S.  The order in which pending items are popped is arbitrary. *)
EXTENDS Naturals, Sequences, FiniteSets, FiniteSetsExt, SequencesExt, TLC
CONSTANTS V, T, MaxProds, MaxBody, MaxWord, Repaired
Sym == V \cup T
Bodies == UNION { [1..k -> Sym] : k \in 0..MaxBody }
AllProds == V \X Bodies
Words == UNION { [1..k -> T] : k \in 0..MaxWord }
VARIABLES prods, w, chart, processed, pos, err
vars == <<prods, w, chart, processed, pos, err>>
n == Len(w)
Prod(i) == IF i = 0 THEN <<"Gamma", <<"S">>>> ELSE prods[i]
Body(it) == Prod(it[1])[2]
Incomplete(it) == it[4] < Len(Body(it))
NextSym(it) == Body(it)[it[4] + 1]
RECURSIVE NullLfp(_)
NullLfp(N) == LET N2 == N \cup { prods[i][1] : i \in { j \in DOMAIN prods : \A k \in DOMAIN prods[j][2] : prods[j][2][k] \in N } }
              IN IF N2 = N THEN N ELSE NullLfp(N2)
Nullable == NullLfp({})
Init == /\ prods \in UNION { { SetToSeq(P) : P \in kSubset(k, AllProds) } : k \in 1..MaxProds }
        /\ w \in Words
        /\ chart = [i \in 0..Len(w) |-> IF i = 0 THEN {<<0, 0, 0, 0>>} ELSE {}]
        /\ processed = [i \in 0..Len(w) |-> IF i = 0 THEN {<<0, 0, 0, 0>>} ELSE {}]
        /\ pos = 0 /\ err = FALSE
Add(ch, pr, k, items) == LET new == items \ pr[k] IN <<[ch EXCEPT ![k] = @ \cup new], [pr EXCEPT ![k] = @ \cup new]>>
Predict(it) == { <<i, it[3], it[3], 0>> : i \in { j \in DOMAIN prods : prods[j][1] = NextSym(it) } }
               \cup (IF Repaired /\ NextSym(it) \in Nullable THEN {<<it[1], it[2], it[3], it[4] + 1>>} ELSE {})
Complete(it, pr) == { <<t[1], t[2], it[3], t[4] + 1>> : t \in { u \in pr[it[2]] : Incomplete(u) /\ NextSym(u) = Prod(it[1])[1] } }
Step == /\ ~err /\ pos <= n /\ chart[pos] # {}
        /\ \E it \in chart[pos] :
             LET ch0 == [chart EXCEPT ![pos] = @ \ {it}] IN
             IF Incomplete(it) /\ NextSym(it) \in V THEN
                  IF pos < n \/ Repaired
                  THEN LET r == Add(ch0, processed, pos, Predict(it)) IN chart' = r[1] /\ processed' = r[2] /\ err' = FALSE
                  ELSE chart' = ch0 /\ UNCHANGED <<processed, err>>
             ELSE IF Incomplete(it) THEN
                  IF pos < n /\ NextSym(it) = w[pos + 1]
                  THEN LET r == Add(ch0, processed, pos + 1, {<<it[1], it[2], it[3] + 1, it[4] + 1>>}) IN chart' = r[1] /\ processed' = r[2] /\ err' = FALSE
                  ELSE chart' = ch0 /\ UNCHANGED <<processed, err>>
             ELSE LET new == Complete(it, processed)
                      r == Add(ch0, processed, it[3], new)
                  IN /\ chart' = r[1] /\ processed' = r[2]
                     \* dictionary changed size during iteration: inserting into the chart being iterated
                     /\ err' = (~Repaired /\ it[2] = it[3] /\ (new \ processed[it[3]]) # {})
        /\ UNCHANGED <<prods, w, pos>>
Advance == /\ ~err /\ pos < n /\ chart[pos] = {} /\ pos' = pos + 1 /\ UNCHANGED <<prods, w, chart, processed, err>>
Next == Step \/ Advance
Spec == Init /\ [][Next]_vars
Done == ~err /\ pos = n /\ chart[n] = {}
Accepted == \E it \in processed[n] : it[1] # 0 /\ it[2] = 0 /\ ~Incomplete(it) /\ Prod(it[1])[1] = "S"
\* reference: bounded language by least fixpoint
Cat(X, Y) == { x \in { u \o v : u \in X, v \in Y } : Len(x) <= MaxWord }
RECURSIVE BodyLang(_,_)
BodyLang(F, b) == IF b = <<>> THEN {<<>>} ELSE Cat(IF Head(b) \in V THEN F[Head(b)] ELSE {<<Head(b)>>}, BodyLang(F, Tail(b)))
RECURSIVE Lfp(_)
Lfp(F) == LET F2 == [A \in V |-> F[A] \cup UNION { BodyLang(F, prods[i][2]) : i \in { j \in DOMAIN prods : prods[j][1] = A } }] IN IF F2 = F THEN F ELSE Lfp(F2)
Member == w \in Lfp([A \in V |-> {}])["S"]
Correct == Done => (Accepted <=> Member)
NoCrash == ~err
=============================================================================
