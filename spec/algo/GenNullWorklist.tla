--------------------------- MODULE GenNullWorklist ---------------------------
(* CFG._get_generating_or_nullable: worklist over `impacts` with counters in
   `_remaining_lists` that are decremented in place and restored before returning.
   The grammar is fixed per behaviour; the pop order of the worklist is arbitrary.
   Two consecutive calls (generating, then nullable) run on the same counters, as the cache
   `_impacts/_remaining_lists` is built once per grammar object. *)
EXTENDS Naturals, Sequences, FiniteSets, FiniteSetsExt, SequencesExt, TLC
CONSTANTS V, T, MaxProds, MaxBody
Sym == V \cup T
Bodies == UNION { [1..k -> Sym] : k \in 0..MaxBody }
AllProds == V \X Bodies
VARIABLES prods,      \* sequence of productions <<head, body>> (index = position in the per-head counter list is derived)
          remaining,  \* production index -> counter (only for non-empty bodies)
          mode,       \* "gen" | "null"
          g,          \* symbols found so far (the code's g_symbols, Epsilon left out)
          todo,       \* worklist (a set: pop order arbitrary)
          modified,   \* bag of production indices decremented (sequence)
          pc, calls
vars == <<prods, remaining, mode, g, todo, modified, pc, calls>>
NonEmptyIdx == { i \in DOMAIN prods : prods[i][2] # <<>> }
EpsHeads == { prods[i][1] : i \in { j \in DOMAIN prods : prods[j][2] = <<>> } }
InitCounters == [i \in NonEmptyIdx |-> Len(prods[i][2])]
\* occurrences of symbol s: one impact per occurrence, as in _set_impacts_and_remaining_lists
Impacts(s) == { <<i, k>> : i \in NonEmptyIdx, k \in 1..MaxBody } \cap { x \in (DOMAIN prods) \X (1..MaxBody) : x[2] \in DOMAIN prods[x[1]][2] /\ prods[x[1]][2][x[2]] = s }
Start(m) == /\ mode' = m
            /\ g' = EpsHeads \cup (IF m = "gen" THEN T ELSE {})
            /\ todo' = EpsHeads \cup (IF m = "gen" THEN T ELSE {})
            /\ modified' = <<>>
            /\ pc' = "loop"
Init == /\ prods \in UNION { { SetToSeq(P) : P \in kSubset(k, AllProds) } : k \in 1..MaxProds }
        /\ remaining = InitCounters
        /\ mode = "gen" /\ g = EpsHeads \cup T /\ todo = EpsHeads \cup T /\ modified = <<>> /\ pc = "loop" /\ calls = 1
\* process all impacts of one popped symbol, in an arbitrary order, one impact per step would blow up the state
\* space; the order inside one pop does not matter for the counters (each impact touches its own production
\* once per occurrence), so one pop is one action that folds over the impacts
RECURSIVE Fold(_,_,_,_)
Fold(imps, rem, gs, mods) ==
  IF imps = {} THEN <<rem, gs, mods, {}>>
  ELSE LET x == CHOOSE y \in imps : TRUE
           i == x[1] h == prods[i][1]
       IN IF h \in gs THEN Fold(imps \ {x}, rem, gs, mods)
          ELSE LET rem2 == [rem EXCEPT ![i] = @ - 1]
                   r == Fold(imps \ {x}, rem2, IF rem2[i] = 0 THEN gs \cup {h} ELSE gs, Append(mods, i))
               IN <<r[1], r[2], r[3], r[4] \cup (IF rem2[i] = 0 THEN {h} ELSE {})>>
Pop == /\ pc = "loop" /\ todo # {}
       /\ \E s \in todo :
            LET r == Fold(Impacts(s), remaining, g, modified) IN
            /\ remaining' = r[1] /\ g' = r[2] /\ modified' = r[3]
            /\ todo' = (todo \ {s}) \cup r[4]
       /\ UNCHANGED <<prods, mode, pc, calls>>
Restore == /\ pc = "loop" /\ todo = {}
           /\ remaining' = [i \in DOMAIN remaining |-> remaining[i] + Cardinality({ k \in DOMAIN modified : modified[k] = i })]
           /\ pc' = "ret" /\ UNCHANGED <<prods, mode, g, todo, modified, calls>>
NextCall == /\ pc = "ret" /\ calls < 3
            /\ Start(IF mode = "gen" THEN "null" ELSE "gen")
            /\ calls' = calls + 1 /\ UNCHANGED <<prods, remaining>>
Next == Pop \/ Restore \/ NextCall
Spec == Init /\ [][Next]_vars
\* reference least fixpoints
RECURSIVE Lfp(_,_)
Lfp(S, base) == LET S2 == S \cup { prods[i][1] : i \in { j \in DOMAIN prods : \A k \in DOMAIN prods[j][2] : prods[j][2][k] \in S \cup base } }
                IN IF S2 = S THEN S ELSE Lfp(S2, base)
Generating == Lfp({}, T) \cup T
Nullable == Lfp({}, {})
ResultOK == pc = "ret" => g = (IF mode = "gen" THEN Generating ELSE Nullable)
CountersRestored == pc = "ret" => remaining = InitCounters
CountersNonNegative == \A i \in DOMAIN remaining : remaining[i] >= 0
=============================================================================
