------------------------------- MODULE SubsetConstruction -------------------------------
(* EpsilonNFA._to_deterministic_internal(eclose=True) as a state machine shaped like the code:
   a LIFO `to_process` of subsets, `processed` filled when a subset is pushed (the start subset
   before the loop), one action per pop; inside a pop the input symbols are visited in an
   arbitrary order (the code iterates a Python set), which changes the push order and therefore
   the whole exploration order.  No transition is added to the empty subset (`if not state:
   continue`); a popped subset becomes final when it meets the final states.
   Every epsilon-NFA with states 1..N and at most MaxT transitions is an initial state.
   Postconditions (pc = "done"), for every automaton and every order:
     Exact   the subsets built are exactly the non-empty subsets reachable from the closure of the
             start states (plus that closure itself), with the transitions of the reference;
     DetOK   at most one target per (subset, symbol);
     LangOK  the result accepts a word iff the epsilon-NFA has an accepting run on it - runs are
             judged by reachability in the configuration graph (state, position), which does not
             mention subsets.
   Variant = "code" is the algorithm as written; "noStartEclose" / "noStepEclose" drop one of
   the two closures (TLC must refute LangOK for them: sensitivity of the model). *)
EXTENDS Naturals, Sequences, FiniteSets, TLC, SequencesExt
CONSTANTS N, Sym, MaxT, MaxW, Variant
Q == 1..N
Eps == "eps"
Lab == Sym \cup {Eps}
VARIABLES edges, starts, finals, dstart, todo, processed, dtrans, dfinals, pc
vars == <<edges, starts, finals, dstart, todo, processed, dtrans, dfinals, pc>>

Succ(q, x) == { e[3] : e \in { f \in edges : f[1] = q /\ f[2] = x } }
RECURSIVE EcloseSet(_)
EcloseSet(S) == LET T == S \cup UNION { Succ(q, Eps) : q \in S } IN IF T = S THEN S ELSE EcloseSet(T)
Move(S, x) == UNION { Succ(q, x) : q \in S }

StartSubset == IF Variant = "noStartEclose" THEN starts ELSE EcloseSet(starts)
Target(raw) == IF Variant = "noStepEclose" THEN raw ELSE EcloseSet(raw)

Init == /\ edges \in { E \in SUBSET (Q \X Lab \X Q) : Cardinality(E) <= MaxT }
        /\ starts \in SUBSET Q /\ finals \in SUBSET Q
        /\ dstart = StartSubset
        /\ todo = <<StartSubset>> /\ processed = {StartSubset}
        /\ dtrans = {} /\ dfinals = {} /\ pc = "loop"

RECURSIVE Proc(_, _, _, _)
Proc(cur, sq, i, st) ==
  IF i > Len(sq) THEN st ELSE
  LET x == sq[i]
      raw == Move(cur, x) IN
  IF raw = {} THEN Proc(cur, sq, i + 1, st) ELSE
  LET tgt == Target(raw)
      dt2 == st.dt \cup {<<cur, x, tgt>>} IN
  IF tgt \in st.pr THEN Proc(cur, sq, i + 1, [st EXCEPT !.dt = dt2])
  ELSE Proc(cur, sq, i + 1, [tp |-> Append(st.tp, tgt), pr |-> st.pr \cup {tgt}, dt |-> dt2])

Pop == /\ pc = "loop" /\ todo # <<>>
       /\ LET cur == todo[Len(todo)]
              rest == SubSeq(todo, 1, Len(todo) - 1) IN
          \E sq \in SetToSeqs(Sym) :
            LET st == Proc(cur, sq, 1, [tp |-> rest, pr |-> processed, dt |-> dtrans]) IN
            /\ todo' = st.tp /\ processed' = st.pr /\ dtrans' = st.dt
            /\ dfinals' = IF cur \cap finals # {} THEN dfinals \cup {cur} ELSE dfinals
       /\ UNCHANGED <<edges, starts, finals, dstart, pc>>
Finish == /\ pc = "loop" /\ todo = <<>> /\ pc' = "done"
          /\ UNCHANGED <<edges, starts, finals, dstart, todo, processed, dtrans, dfinals>>
Next == Pop \/ Finish
Spec == Init /\ [][Next]_vars

(* ---- reference ---- *)
RECURSIVE ReachSubsets(_)
ReachSubsets(R) == LET T == { EcloseSet(Move(S, x)) : S \in R, x \in Sym } \ {{}}
                       U == T \cup R IN IF U = R THEN R ELSE ReachSubsets(U)
RefSubsets == ReachSubsets({EcloseSet(starts)})
RefTrans == { t \in { <<S, x, EcloseSet(Move(S, x))>> : S \in RefSubsets, x \in Sym } : t[3] # {} }

Words == UNION { [1..n -> Sym] : n \in 0..MaxW }
RECURSIVE ConfReach(_, _)
ConfReach(C, w) ==
  LET Nx(c) == { <<q2, c[2]>> : q2 \in Succ(c[1], Eps) } \cup
               (IF c[2] < Len(w) THEN { <<q2, c[2] + 1>> : q2 \in Succ(c[1], w[c[2] + 1]) } ELSE {})
      T == C \cup UNION { Nx(c) : c \in C }
  IN IF T = C THEN C ELSE ConfReach(T, w)
NAccepts(w) == \E c \in ConfReach({ <<s, 0>> : s \in starts }, w) : c[2] = Len(w) /\ c[1] \in finals
RECURSIVE DRun(_, _, _)
DRun(S, w, i) == IF i > Len(w) THEN S \in dfinals
                 ELSE LET T == { t \in dtrans : t[1] = S /\ t[2] = w[i] } IN
                      IF T = {} THEN FALSE ELSE DRun((CHOOSE t \in T : TRUE)[3], w, i + 1)
DAccepts(w) == DRun(dstart, w, 1)

(* ---- properties ---- *)
TodoProcessed == \A i \in 1..Len(todo) : todo[i] \in processed
NoDuplicateWork == \A i, j \in 1..Len(todo) : i # j => todo[i] # todo[j]
SourcesKnown == \A t \in dtrans : t[1] \in processed /\ t[3] \in processed /\ t[3] # {}
DetOK == \A t, u \in dtrans : (t[1] = u[1] /\ t[2] = u[2]) => t[3] = u[3]
Exact == pc = "done" => /\ processed = RefSubsets
                        /\ dtrans = RefTrans
                        /\ dfinals = { S \in RefSubsets : S \cap finals # {} }
LangOK == pc = "done" => \A w \in Words : DAccepts(w) = NAccepts(w)
Terminates == <>(pc = "done")
=============================================================================
