------------------------------- MODULE LeadsToFinal -------------------------------
EXTENDS Naturals, Sequences, FiniteSets, SequencesExt, TLC
CONSTANTS N, MaxE
Q == 1..N
None == 0
VARIABLES edges, starts, finals, leading, visited, stack, delayed, pc
vars == <<edges, starts, finals, leading, visited, stack, delayed, pc>>
Succ(s) == { e[2] : e \in { f \in edges : f[1] = s } }
RECURSIVE Reach(_)
Reach(S) == LET T == S \cup UNION { Succ(s) : s \in S } IN IF T = S THEN S ELSE Reach(T)
CoReach == { s \in Q : Reach({s}) \cap finals # {} }
Init == /\ edges \in { E \in SUBSET (Q \X Q) : Cardinality(E) <= MaxE }
        /\ starts \in SUBSET Q /\ finals \in SUBSET Q
        /\ leading = finals /\ visited = {} /\ delayed = <<>>
        /\ stack \in { [i \in DOMAIN sq |-> <<None, sq[i]>>] : sq \in SetToSeqs(starts) }
        /\ pc = "loop"
Pop == /\ pc = "loop" /\ stack # <<>>
       /\ LET top == Last(stack) rest == Front(stack) prev == top[1] cur == top[2] IN
          IF prev # None /\ cur \in leading
          THEN /\ leading' = leading \cup {prev} /\ stack' = rest /\ UNCHANGED <<visited, delayed>>
          ELSE IF cur \in visited
          THEN /\ delayed' = Append(delayed, top) /\ stack' = rest /\ UNCHANGED <<visited, leading>>
          ELSE /\ visited' = visited \cup {cur}
               /\ UNCHANGED <<leading, delayed>>
               /\ IF Succ(cur) = {} THEN stack' = rest
                  ELSE \E sq \in SetToSeqs(Succ(cur)) :
                         stack' = (rest \o <<top>>) \o [i \in DOMAIN sq |-> <<cur, sq[i]>>]
       /\ UNCHANGED <<edges, starts, finals, pc>>
EndLoop == /\ pc = "loop" /\ stack = <<>> /\ pc' = "delayed" /\ UNCHANGED <<edges, starts, finals, leading, visited, stack, delayed>>
Delayed == /\ pc = "delayed" /\ delayed # <<>>
           /\ LET d == Head(delayed) IN leading' = IF d[1] # None /\ d[2] \in leading THEN leading \cup {d[1]} ELSE leading
           /\ delayed' = Tail(delayed) /\ UNCHANGED <<edges, starts, finals, visited, stack, pc>>
Finish == /\ pc = "delayed" /\ delayed = <<>> /\ pc' = "done" /\ UNCHANGED <<edges, starts, finals, leading, visited, stack, delayed>>
Next == Pop \/ EndLoop \/ Delayed \/ Finish
Spec == Init /\ [][Next]_vars
\* postcondition: every state reachable from a start state that can reach a final state is in `leading`, and nothing else that cannot reach final
Complete == pc = "done" => (Reach(starts) \cap CoReach) \subseteq leading
Sound == pc = "done" => leading \subseteq CoReach
=============================================================================
