------------------------------- MODULE HopcroftOps -------------------------------
(* The steps of DeterministicFiniteAutomaton._get_partition (Hopcroft refinement with a trash state
   0, a stack of <<class, symbol>> pairs and an inclusion table) as operators, shared by the
   model-checked state machine Hopcroft.tla and by the step-level trace specification
   TraceHopcroft.tla.  dl : (state, symbol) -> state is total on qt x symbols (0 = trash);
   so is the iteration order of the symbol set; classes are numbered from 1. *)
EXTENDS Naturals, Sequences, FiniteSets, SequencesExt, TLC
\* inserts after one split (class v was split, nw is the new class), over all symbols in set order
RECURSIVE InsertsOp(_,_,_,_,_,_,_)
InsertsOp(so, P, pl, inc, v, nw, k) ==
  IF k > Len(so) THEN <<pl, inc>>
  ELSE LET a == so[k]
           tgt == IF <<v, a>> \in inc THEN nw
                  ELSE IF Cardinality(P[v]) < Cardinality(P[nw]) THEN v ELSE nw
       IN InsertsOp(so, P, Append(pl, <<tgt, a>>), inc \cup {<<tgt, a>>}, v, nw, k + 1)
\* split all valid classes in ascending order, threading partition / list / inclusion
RECURSIVE SplitsOp(_,_,_,_,_,_)
SplitsOp(so, P, pl, inc, valid, inverse) ==
  IF valid = {} THEN <<P, pl, inc>>
  ELSE LET v == CHOOSE x \in valid : \A y \in valid : x <= y
           moved == P[v] \cap inverse
           P2 == Append([P EXCEPT ![v] = @ \ moved], moved)
           nw == Len(P2)
           r == InsertsOp(so, P2, pl, inc, v, nw, 1)
       IN SplitsOp(so, P2, r[1], r[2], valid \ {v}, inverse)
\* one iteration of the main loop: pop the top pair and refine with it
PopResult(dl, qt, so, P, pl, inc) ==
  LET top == Last(pl)
      c == top[1]  a == top[2]
      inverse == { q \in qt : dl[<<q, a>>] \in P[c] }
      valid == { i \in DOMAIN P : (P[i] \cap inverse # {}) /\ ~(P[i] \subseteq inverse) }
  IN SplitsOp(so, P, Front(pl), inc \ {top}, valid, inverse)
\* the state before the first iteration
InitState(qt, so, fin) ==
  LET nonfin == qt \ fin
      toadd == IF Cardinality(nonfin) < Cardinality(fin) THEN 2 ELSE 1
  IN << <<fin, nonfin>>, [i \in DOMAIN so |-> <<toadd, so[i]>>], { <<toadd, so[i]>> : i \in DOMAIN so } >>
=============================================================================
