------------------------------- MODULE Marking -------------------------------
(* Aho's marking algorithm for indexed-grammar emptiness as pyformlang codes it
   (IndexedGrammar.is_empty, _duplication_processing, _production_process, addrec_bis/ter).
   Rules are processed in an arbitrary order until nothing changes.  AsCoded = TRUE models the
   handling of a non-terminal that is the left side of several consumption rules for the same
   index exactly as addrec_ter does it (first rule: pick or skip; later rules: skip only). *)
EXTENDS IGSem, SequencesExt, FiniteSetsExt
CONSTANTS NT, IDX, MaxRules, AsCoded
AllRules == { <<"end", A, "a">> : A \in NT } \cup { <<"dup", A, B, C>> : A, B, C \in NT }
            \cup { <<"push", A, B, f>> : A, B \in NT, f \in IDX } \cup { <<"pop", f, A, B>> : f \in IDX, A, B \in NT }
VARIABLES G,        \* the grammar (IGSem record)
          cons,     \* f -> sequence of <<C, D>> : order of the consumption rules C[f.] -> D
          marked,   \* NT -> set of sets of NT
          pc
vars == <<G, cons, marked, pc>>
Pops(R, f) == { <<r[3], r[4]>> : r \in { q \in R : q[1] = "pop" /\ q[2] = f } }
\* TLC cannot enumerate Seq(..): use an explicit initial predicate instead
InitX == \E R \in UNION { kSubset(k, AllRules) : k \in 0..MaxRules } :
           /\ G = [start |-> "S", nts |-> NT, idx |-> IDX, rules |-> R]
           /\ cons \in { c \in [IDX -> UNION { SetToSeqs(Pops(R, f)) : f \in IDX }] : \A f \in IDX : c[f] \in SetToSeqs(Pops(R, f)) }
           /\ marked = [A \in NT |-> {{A}} \cup (IF \E r \in R : r[1] = "end" /\ r[2] = A THEN {{}} ELSE {})]
           /\ pc = "run"
RECURSIVE Combos(_,_)
Combos(E, Opt) == IF E = {} THEN {{}}
                  ELSE LET c == CHOOSE x \in E : TRUE IN { m \cup r : m \in Opt[c], r \in Combos(E \ {c}, Opt) }
DupNew(r) == { m0 \cup m1 : m0 \in marked[r[3]], m1 \in marked[r[4]] }
PushNew(r) ==
  LET ls == cons[r[4]]
      lefts == { ls[i][1] : i \in DOMAIN ls }
      Rights(C) == { ls[i][2] : i \in { j \in DOMAIN ls : ls[j][1] = C } }
      First(C) == ls[CHOOSE i \in DOMAIN ls : ls[i][1] = C /\ \A j \in DOMAIN ls : ls[j][1] = C => i <= j][2]
      Count(C) == Cardinality({ i \in DOMAIN ls : ls[i][1] = C })
      Opt == [C \in lefts |-> IF AsCoded
                              THEN marked[First(C)] \cup (IF Count(C) > 1 THEN {{}} ELSE {})
                              ELSE UNION { marked[D] : D \in Rights(C) }]
      viaSets == UNION { Combos(E, Opt) : E \in { X \in marked[r[3]] : X # {} /\ X \subseteq lefts } }
      direct == IF r[3] \in lefts THEN UNION { marked[D] : D \in Rights(r[3]) } ELSE {}
      eps == IF {} \in marked[r[3]] THEN {{}} ELSE {}
  IN viaSets \cup direct \cup eps
New(r) == IF r[1] = "dup" THEN DupNew(r) ELSE IF r[1] = "push" THEN PushNew(r) ELSE {}
Process(r) == /\ pc = "run" /\ r[1] \in {"dup", "push"}
              /\ ~(New(r) \subseteq marked[r[2]])
              /\ marked' = [marked EXCEPT ![r[2]] = @ \cup New(r)]
              /\ UNCHANGED <<G, cons, pc>>
Stable == \A r \in { q \in G.rules : q[1] \in {"dup", "push"} } : New(r) \subseteq marked[r[2]]
Finish == pc = "run" /\ Stable /\ pc' = "done" /\ UNCHANGED <<G, cons, marked>>
Next == (\E r \in G.rules : Process(r)) \/ Finish
Spec == InitX /\ [][Next]_vars
\* reference: achievable productive sets
TF == FLfp(G, [k \in FKeys(G) |-> {}])
PZero == FP0(G, TF, {})
RECURSIVE Ach(_,_)
Ach(seen, front) == IF front = {} THEN seen
                    ELSE LET nx == { TF[<<f, S>>] : f \in IDX, S \in front } \ seen IN Ach(seen \cup nx, nx)
AchievableSets == Ach({PZero}, {PZero})
SoundMarks == \A A \in NT : \A E \in marked[A] : \A S \in AchievableSets : E \subseteq S => A \in S
VerdictOK == pc = "done" => (({} \in marked["S"]) <=> NonEmpty(G))
=============================================================================
