------------------------------- MODULE Names -------------------------------
(* The names pyformlang generates for the states of its results, as functions of the operands' names.
   Two schemes, each in the variants the code has had:

   (1) product states of get_intersection / get_difference (combine_state_pair):
         "join"  str(p) \o "; " \o str(q)        (as coded before the repair of F-C03-3; the seeded change C03-r2-1 uses ";")
         "pair"  the pair <<p, q>> itself         (as coded now)
       property: different pairs get different names (PairInjective).

   (2) one state per group of states, in minimize() (classes) and to_deterministic() (subsets):
       to_single_state joins the sorted member names with ";", to_distinct_single_state makes the results distinct:
         "plain" the joined name as it is                              (before the repair of the merged-name collisions)
         "count" on a collision append "#" and the number of names handed out, once   (the seeded change C02-r2-2)
         "loop"  on a collision append "#1", "#2", ... until the name is free        (as coded now)
       property: after all groups are named, different groups have different names (GroupsDistinct).

   Names are TLA+ strings; Pool is a sequence of the names that may occur in an operand (its order stands for the
   lexicographic order the code sorts by).  A behaviour picks a set of states and then, step by step, a next group among the states that are left
   (so every partition is named in every order). *)
EXTENDS Naturals, Sequences, FiniteSets, TLC
CONSTANTS PoolId,      \* which pool of operand names (a cfg file cannot hold a sequence)
          PairScheme,  \* "join" | "pair"
          Sep,         \* the separator of the join scheme
          GroupScheme  \* "plain" | "count" | "loop"
Pool == CASE PoolId = 1 -> <<"a", "a;b", "a;b#1", "a;b#2", "b">>          \* names the group scheme itself produces
          [] PoolId = 2 -> <<"a", "a; b", "a;b", "b", "b; a", "b;a">>     \* names the pair scheme itself produces
          [] PoolId = 3 -> <<"a", "b", "c", "d">>                         \* plain names
Names == { Pool[i] : i \in DOMAIN Pool }
Idx(n) == CHOOSE i \in DOMAIN Pool : Pool[i] = n

(* ---- (1) *)
PairName(p, q) == IF PairScheme = "join" THEN p \o Sep \o q ELSE <<p, q>>
PairInjectiveC == \A p, q, p2, q2 \in Names : PairName(p, q) = PairName(p2, q2) => (p = p2 /\ q = q2)

(* ---- (2) *)
RECURSIVE JoinFrom(_,_)
JoinFrom(G, i) ==      \* members of G in pool order, from index i on, joined with ";"
  IF i > Len(Pool) THEN ""
  ELSE IF Pool[i] \in G
       THEN LET rest == JoinFrom(G, i + 1) IN IF rest = "" THEN Pool[i] ELSE Pool[i] \o ";" \o rest
       ELSE JoinFrom(G, i + 1)
Single(G) == JoinFrom(G, 1)
Digits == <<"0", "1", "2", "3", "4", "5", "6", "7", "8", "9">>
Str(k) == Digits[k + 1]
RECURSIVE Loop(_,_,_)
Loop(base, k, taken) == IF (base \o "#" \o Str(k)) \in taken THEN Loop(base, k + 1, taken) ELSE base \o "#" \o Str(k)
Distinct(G, taken) ==
  LET m == Single(G) IN
  IF GroupScheme = "plain" \/ m \notin taken THEN m
  ELSE IF GroupScheme = "count" THEN m \o "#" \o Str(Cardinality(taken))
  ELSE Loop(m, 1, taken)

VARIABLES rest,     \* states not yet in a named group
          taken,    \* names handed out
          name      \* group -> name
vars == <<rest, taken, name>>
Init == /\ rest \in SUBSET Names \ {{}}
        /\ taken = {}
        /\ name = <<>>
NameOne(G) == LET n == Distinct(G, taken) IN
  /\ rest' = rest \ G
  /\ taken' = taken \cup {n}
  /\ name' = [g \in DOMAIN name \cup {G} |-> IF g = G THEN n ELSE name[g]]
Next == \E G \in SUBSET rest \ {{}} : NameOne(G)
Spec == Init /\ [][Next]_vars
PairInjective == rest \subseteq Names /\ PairInjectiveC       \* state-level, so that TLC reports it like the others
GroupsDistinct == \A g, h \in DOMAIN name : g # h => name[g] # name[h]
=============================================================================
