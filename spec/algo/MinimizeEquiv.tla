--------------------------- MODULE MinimizeEquiv ---------------------------
(* DeterministicFiniteAutomaton.minimize followed by _is_equivalent_to_minimal, as coded
   (Fixed = FALSE) and with dead blocks dropped (Fixed = TRUE); verdict compared with exact
   language equality.  A DFA is [n, syms, start, finals, d] with d : (1..n) \X syms -> 0..n,
   0 = no transition.  The Nerode partition is taken from Moore refinement (Hopcroft.tla shows
   the coded refinement computes exactly this). *)
EXTENDS Naturals, Sequences, FiniteSets, TLC
CONSTANTS N, Alph
DFAs == UNION { UNION { { [n |-> n, syms |-> S, start |-> s, finals |-> F, d |-> d]
                          : s \in 1..n, F \in SUBSET (1..n), d \in [(1..n) \X S -> 0..n] }
                        : S \in SUBSET Alph } : n \in 1..N }
VARIABLES A, B
Init == A \in DFAs /\ B \in DFAs
Next == UNCHANGED <<A, B>>
Spec == Init /\ [][Next]_<<A, B>>
Dl(D, q, a) == IF q = 0 \/ a \notin D.syms THEN 0 ELSE D.d[<<q, a>>]
\* ---- exact language equality over the joint alphabet (pairs of states, 0 = dead)
RECURSIVE RP(_,_,_,_)
RP(X, Y, seen, front) == IF front = {} THEN seen
   ELSE LET nx == { <<Dl(X, p[1], a), Dl(Y, p[2], a)>> : p \in front, a \in X.syms \cup Y.syms } \ seen
        IN RP(X, Y, seen \cup nx, nx)
LangEq(X, Y) == \A p \in RP(X, Y, {<<X.start, Y.start>>}, {<<X.start, Y.start>>}) : (p[1] \in X.finals) <=> (p[2] \in Y.finals)
\* ---- minimize as coded
RECURSIVE Reach(_,_)
Reach(D, S) == LET T == S \cup ({ Dl(D, q, a) : q \in S, a \in D.syms } \ {0}) IN IF T = S THEN S ELSE Reach(D, T)
RECURSIVE Moore(_,_)
Moore(D, E) == LET E2 == { p \in E : \A a \in D.syms : <<Dl(D, p[1], a), Dl(D, p[2], a)>> \in E } IN IF E2 = E THEN E ELSE Moore(D, E2)
Nerode(D) == Moore(D, { p \in (0..D.n) \X (0..D.n) : (p[1] \in D.finals) <=> (p[2] \in D.finals) })
Class(D, q) == { r \in 0..D.n : <<q, r>> \in Nerode(D) }
EmptyDFA == [states |-> {{"Empty"}}, start |-> {"Empty"}, finals |-> {}, delta |-> {}]
Min(D, Fixed) ==
  IF D.finals = {} THEN EmptyDFA
  ELSE LET R == Reach(D, {D.start})
           dead == Class(D, 0)
           keep == IF Fixed THEN { q \in R : q \notin dead } ELSE R
       IN IF Fixed /\ D.start \in dead THEN EmptyDFA
          ELSE [states |-> { Class(D, q) : q \in keep }, start |-> Class(D, D.start),
                finals |-> { Class(D, q) : q \in keep \cap D.finals },
                delta |-> { <<Class(D, t[1]), t[2], Class(D, Dl(D, t[1], t[2]))>>
                            : t \in { u \in keep \X D.syms : Dl(D, u[1], u[2]) \in keep } } ]
\* a transition is kept iff source and target are kept states (targets of reachable states are reachable);
\* in the coded variant a dead state is a kept state, so the block of the trash state 0 shows up as a sink
Out(M, s) == { t[2] : t \in { u \in M.delta : u[1] = s } }
Tgt(M, s, a) == (CHOOSE t \in M.delta : t[1] = s /\ t[2] = a)[3]
RECURSIVE Walk(_,_,_,_)
Walk(M1, M2, seen, front) == IF front = {} THEN seen
   ELSE LET nx == UNION { IF Out(M1, p[1]) = Out(M2, p[2]) THEN { <<Tgt(M1, p[1], a), Tgt(M2, p[2], a)>> : a \in Out(M1, p[1]) } ELSE {} : p \in front } \ seen
        IN Walk(M1, M2, seen \cup nx, nx)
LockStep(M1, M2) == LET ps == Walk(M1, M2, {<<M1.start, M2.start>>}, {<<M1.start, M2.start>>}) IN
   /\ \A p \in ps : ((p[1] \in M1.finals) <=> (p[2] \in M2.finals)) /\ Out(M1, p[1]) = Out(M2, p[2])
   /\ \A p, q \in ps : p[1] = q[1] => p[2] = q[2]
VerdictCoded == LockStep(Min(A, FALSE), Min(B, FALSE)) = LangEq(A, B)
VerdictFixed == LockStep(Min(A, TRUE), Min(B, TRUE)) = LangEq(A, B)
=============================================================================
