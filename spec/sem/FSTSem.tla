------------------------------- MODULE FSTSem -------------------------------
(* Reference semantics of finite-state transducers.
   T = [states, starts, finals, delta : set of <<p, a, q, out>>], a = "eps" for an epsilon-input
   move, out a sequence of output symbols.  Outputs(T, w) is the set of output words o such that
   some path from a start state to a final state reads w and writes o.  It is computed as a
   closure over configurations <<position, state, output>>, which is finite exactly when the
   epsilon-input cycles write nothing (EpsCyclesSilent). *)
EXTENDS Naturals, Sequences, FiniteSets, SequencesExt, TLC
EpsEdges(T) == { t \in T.delta : t[2] = "eps" }
RECURSIVE EpsReach(_,_)
EpsReach(T, S) == LET N == S \cup { t[3] : t \in { u \in EpsEdges(T) : u[1] \in S } } IN IF N = S THEN S ELSE EpsReach(T, N)
EpsCyclesSilent(T) == \A t \in EpsEdges(T) : t[4] # <<>> => t[1] \notin EpsReach(T, {t[3]})
Moves(T, w, c) ==
  { <<c[1], t[3], c[3] \o t[4]>> : t \in { u \in T.delta : u[1] = c[2] /\ u[2] = "eps" } }
  \cup (IF c[1] < Len(w)
        THEN { <<c[1] + 1, t[3], c[3] \o t[4]>> : t \in { u \in T.delta : u[1] = c[2] /\ u[2] = w[c[1] + 1] } }
        ELSE {})
RECURSIVE Closure(_,_,_,_)
Closure(T, w, seen, front) ==
  IF front = {} THEN seen
  ELSE LET nx == UNION { Moves(T, w, c) : c \in front } \ seen IN Closure(T, w, seen \cup nx, nx)
Outputs(T, w) == LET init == { <<0, s, <<>>>> : s \in T.starts }
                     all == Closure(T, w, init, init)
                 IN { c[3] : c \in { d \in all : d[1] = Len(w) /\ d[2] \in T.finals } }
(* relation algebra *)
RUnion(A, B, w) == Outputs(A, w) \cup Outputs(B, w)
RConcat(A, B, w) == UNION { { o1 \o o2 : o1 \in Outputs(A, SubSeq(w, 1, k)), o2 \in Outputs(B, SubSeq(w, k + 1, Len(w))) } : k \in 0..Len(w) }
(* star of a relation without (empty input, non-empty output) pairs: factorise with a non-empty last factor *)
StarDefined(A) == Outputs(A, <<>>) \subseteq {<<>>}
RECURSIVE RStar(_,_)
RStar(A, w) == IF w = <<>> THEN {<<>>}
               ELSE UNION { { o1 \o o2 : o1 \in RStar(A, SubSeq(w, 1, Len(w) - k)), o2 \in Outputs(A, SubSeq(w, Len(w) - k + 1, Len(w))) } : k \in 1..Len(w) }
Fst(j) == [states |-> ToSet(j.states), starts |-> ToSet(j.starts), finals |-> ToSet(j.finals),
           delta |-> { <<t[1], t[2], t[3], t[4]>> : t \in ToSet(j.delta) }]
=============================================================================
