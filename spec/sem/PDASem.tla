------------------------------- MODULE PDASem -------------------------------
(* Reference semantics of pushdown automata: exact acceptance (no stack bound) by a least
   fixpoint of pop summaries.
   P = [states, start, z0, finals, delta : set of <<p, a, X, q, gamma>>], a = "eps" for an epsilon
   move, gamma the pushed string, top first.  Pop(p, X, i, q, j): from state p with X on top at
   input position i the automaton can reach state q at position j having removed X (and
   everything pushed in between). *)
EXTENDS Naturals, Sequences, FiniteSets, SequencesExt, TLC
NextPos(w, i, a) == IF a = "eps" THEN {i} ELSE IF i < Len(w) /\ w[i + 1] = a THEN {i + 1} ELSE {}
RECURSIVE Chain(_,_,_,_)
Chain(Pop, r, g, i) ==
  IF g = <<>> THEN {<<r, i>>}
  ELSE UNION { Chain(Pop, t[4], Tail(g), t[5]) : t \in { u \in Pop : u[1] = r /\ u[2] = Head(g) /\ u[3] = i } }
PopStep(P, w, Pop) ==
  Pop \cup UNION { UNION { { <<t[1], t[3], i, sk[1], sk[2]>> : sk \in Chain(Pop, t[4], t[5], j) }
                           : j \in NextPos(w, i, t[2]) } : t \in P.delta, i \in 0..Len(w) }
RECURSIVE PopLfp(_,_,_)
PopLfp(P, w, Pop) == LET N == PopStep(P, w, Pop) IN IF N = Pop THEN Pop ELSE PopLfp(P, w, N)
Pops(P, w) == PopLfp(P, w, {})
AcceptsEmpty(P, w) == \E t \in Pops(P, w) : t[1] = P.start /\ t[2] = P.z0 /\ t[3] = 0 /\ t[5] = Len(w)
(* Fin(p, X, i): from (p, i) with X on top (whatever lies below) a final state can be reached at the end of the input *)
RECURSIVE FinChain(_,_,_,_,_)
FinChain(Pop, Fin, r, g, i) ==
  IF g = <<>> THEN FALSE
  ELSE \/ <<r, Head(g), i>> \in Fin
       \/ \E t \in { u \in Pop : u[1] = r /\ u[2] = Head(g) /\ u[3] = i } : FinChain(Pop, Fin, t[4], Tail(g), t[5])
Gamma(P) == { t[3] : t \in P.delta } \cup UNION { { t[5][k] : k \in DOMAIN t[5] } : t \in P.delta } \cup {P.z0}
FinStep(P, w, Pop, Fin) ==
  Fin \cup { c \in P.states \X Gamma(P) \X (0..Len(w)) :
               \/ (c[1] \in P.finals /\ c[3] = Len(w))
               \/ \E t \in P.delta : /\ t[1] = c[1] /\ t[3] = c[2]
                                     /\ \E j \in NextPos(w, c[3], t[2]) :
                                          FinChain(Pop, Fin, t[4], t[5], j) }
RECURSIVE FinLfp(_,_,_,_)
FinLfp(P, w, Pop, Fin) == LET N == FinStep(P, w, Pop, Fin) IN IF N = Fin THEN Fin ELSE FinLfp(P, w, Pop, N)
(* acceptance by final state: a final state at the end of the input with any stack content, the
   empty stack included (the run may also pop the last symbol while entering the final state) *)
AcceptsFinal(P, w) ==
  LET Pop == Pops(P, w) Fin == FinLfp(P, w, Pop, {}) IN
  \/ <<P.start, P.z0, 0>> \in Fin
  \/ \E t \in Pop : t[1] = P.start /\ t[2] = P.z0 /\ t[3] = 0 /\ t[5] = Len(w) /\ t[4] \in P.finals

(* ---- second, independent definition: bounded configuration search (state, position, stack <= B) ---- *)
RECURSIVE ConfReach(_,_,_,_,_)
ConfReach(P, w, B, seen, front) ==
  IF front = {} THEN seen
  ELSE LET nx == UNION { IF c[3] = <<>> THEN {}
                         ELSE UNION { { <<t[4], j, t[5] \o Tail(c[3])>> : j \in NextPos(w, c[2], t[2]) }
                                      : t \in { u \in P.delta : u[1] = c[1] /\ u[3] = Head(c[3]) } }
                         : c \in front }
           ok == { c \in nx : Len(c[3]) <= B } \ seen
       IN ConfReach(P, w, B, seen \cup ok, ok)
Confs(P, w, B) == LET i == <<P.start, 0, <<P.z0>>>> IN ConfReach(P, w, B, {i}, {i})
BAcceptsEmpty(P, w, B) == \E c \in Confs(P, w, B) : c[2] = Len(w) /\ c[3] = <<>>
BAcceptsFinal(P, w, B) == \E c \in Confs(P, w, B) : c[2] = Len(w) /\ c[1] \in P.finals

Pda(j) == [states |-> ToSet(j.states), start |-> j.start, z0 |-> j.z0, finals |-> ToSet(j.finals),
           delta |-> { <<t[1], t[2], t[3], t[4], t[5]>> : t \in ToSet(j.delta) }]
=============================================================================
