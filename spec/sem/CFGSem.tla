------------------------------- MODULE CFGSem -------------------------------
(* Reference semantics of context-free grammars, from the definitions.
   G = [start, vars, terms : sets of names, prods : set of <<head, body>>], body a sequence of names.
   A name is a variable iff it is in G.vars (names of variables and terminals are tagged apart
   by the harness: "V:..." / "T:..."). *)
EXTENDS Naturals, Sequences, FiniteSets, SequencesExt, FiniteSetsExt, TLC

Trunc(X, L) == { w \in X : Len(w) <= L }
Cat(X, Y, L) == { w \in { u \o v : u \in X, v \in Y } : Len(w) <= L }
Rev(X) == { Reverse(w) : w \in X }
RECURSIVE StarFix(_,_,_)
StarFix(X, Acc, L) == LET N == Acc \cup Cat(Acc, X, L) IN IF N = Acc THEN Acc ELSE StarFix(X, N, L)
Star(X, L) == StarFix(X, {<<>>}, L)

IsVar(G, s) == s \in G.allv          \* declared variables and every variable used in a production
ProdsOf(G, A) == { p \in G.prods : p[1] = A }
BodySyms(b) == { b[i] : i \in DOMAIN b }
AllVars(G) == G.allv

(* ---- bounded language: least fixpoint of the production operator on sets of words <= L ---- *)
RECURSIVE BodyLang(_,_,_,_)
BodyLang(G, F, b, L) ==
  IF b = <<>> THEN {<<>>}
  ELSE LET h == Head(b)
           X == IF h \in DOMAIN F THEN F[h] ELSE {<<h>>}
       IN Cat(Trunc(X, L), BodyLang(G, F, Tail(b), L), L)
StepF(G, F, L) == [A \in DOMAIN F |-> F[A] \cup UNION { BodyLang(G, F, p[2], L) : p \in ProdsOf(G, A) }]
RECURSIVE Lfp(_,_,_)
Lfp(G, F, L) == LET F2 == StepF(G, F, L) IN IF F2 = F THEN F ELSE Lfp(G, F2, L)
LangAll(G, L) == Lfp(G, [A \in AllVars(G) |-> {}], L)
Lang(G, L) == IF G.start \in AllVars(G) THEN LangAll(G, L)[G.start] ELSE {}

(* ---- symbol classes ---- *)
RECURSIVE GenLfp(_,_)
GenLfp(G, S) == LET S2 == S \cup { p[1] : p \in { q \in G.prods : \A x \in BodySyms(q[2]) : x \in S \/ ~IsVar(G, x) } }
                IN IF S2 = S THEN S ELSE GenLfp(G, S2)
GenVars(G) == GenLfp(G, {})                    \* variables deriving some terminal word
RECURSIVE NullLfp(_,_)
NullLfp(G, S) == LET S2 == S \cup { p[1] : p \in { q \in G.prods : BodySyms(q[2]) \subseteq S } }
                 IN IF S2 = S THEN S ELSE NullLfp(G, S2)
NullVars(G) == NullLfp(G, {})                  \* variables deriving the empty word
RECURSIVE ReachLfp(_,_)
ReachLfp(G, S) == LET S2 == S \cup UNION { BodySyms(p[2]) : p \in { q \in G.prods : q[1] \in S } }
                  IN IF S2 = S THEN S ELSE ReachLfp(G, S2)
ReachSyms(G) == IF G.start = "none" THEN {} ELSE ReachLfp(G, {G.start})         \* symbols occurring in a sentential form from the start symbol
IsEmptyLang(G) == G.start \notin GenVars(G)

(* useful part: productions all of whose symbols are generating, reachable from the start through such productions *)
GenProds(G) == LET Gv == GenVars(G) IN { p \in G.prods : p[1] \in Gv /\ \A x \in BodySyms(p[2]) : x \in Gv \/ ~IsVar(G, x) }
UsefulG(G) == LET G1 == [G EXCEPT !.prods = GenProds(G)]
                  R == ReachSyms(G1)
              IN [G1 EXCEPT !.prods = { p \in G1.prods : p[1] \in R }]
(* the useful part with only its own variables: same language, and every variable's language is
   finite when the grammar's language is (so a large bound L stays cheap on finite languages) *)
TrimG(G) == LET Ug == UsefulG(G) IN [Ug EXCEPT !.allv = (ReachSyms(Ug) \cap G.allv) \cup {G.start}]
(* variables deriving some non-empty word *)
RECURSIVE NeLfp(_,_,_)
NeLfp(G, Gv, S) == LET S2 == S \cup { p[1] : p \in { q \in G.prods : (\A x \in BodySyms(q[2]) : (x \in Gv \/ ~IsVar(G, x)))
                                                                      /\ (\E x \in BodySyms(q[2]) : (x \in S \/ ~IsVar(G, x))) } }
                   IN IF S2 = S THEN S ELSE NeLfp(G, Gv, S2)
RECURSIVE ReachE(_,_)
ReachE(E, S) == LET N == S \cup { e[2] : e \in { f \in E : f[1] \in S } } IN IF N = S THEN S ELSE ReachE(E, N)
(* finite language: among the useful productions no cycle A =>+ uAv with uv able to derive a non-empty word *)
IsFiniteLang(G) ==
  LET U == UsefulG(G)
      Ne == NeLfp(U, GenVars(U), {})
      Grow(p, i) == \E j \in DOMAIN p[2] : j # i /\ (p[2][j] \in Ne \/ ~IsVar(G, p[2][j]))
      E == UNION { { <<p[1], p[2][i], Grow(p, i)>> : i \in { k \in DOMAIN p[2] : IsVar(G, p[2][k]) } } : p \in U.prods }
  IN IsEmptyLang(G) \/ \A e \in E : e[3] => e[1] \notin ReachE(E, {e[2]})

(* ---- shapes ---- *)
NoEps(G) == \A p \in G.prods : p[2] # <<>>
NoUnit(G) == \A p \in G.prods : ~(Len(p[2]) = 1 /\ IsVar(G, p[2][1]))
OnlyUseful(G) == LET U == UsefulG(G) IN
   /\ G.prods \subseteq U.prods
   /\ \A v \in G.vars : v = G.start \/ \E p \in G.prods : v = p[1] \/ v \in BodySyms(p[2])
   /\ \A t \in G.terms : \E p \in G.prods : t \in BodySyms(p[2])
IsCNF(G) == \A p \in G.prods : \/ (Len(p[2]) = 2 /\ IsVar(G, p[2][1]) /\ IsVar(G, p[2][2]))
                               \/ (Len(p[2]) = 1 /\ ~IsVar(G, p[2][1]))

(* conversion from the JSON projection *)
Gram(j) == [start |-> j.start, vars |-> ToSet(j.vars), terms |-> ToSet(j.terms), allv |-> ToSet(j.allv),
            prods |-> { <<p[1], p[2]>> : p \in ToSet(j.prods) }]
MkG(start, prods, T) == LET V == {start} \cup { p[1] : p \in prods } \cup (UNION { BodySyms(p[2]) : p \in prods } \ T)
                        IN [start |-> start, vars |-> V, allv |-> V, prods |-> prods,
                            terms |-> UNION { BodySyms(p[2]) : p \in prods } \cap T]
=============================================================================
