------------------------------- MODULE FSSem -------------------------------
(* Feature structures as abstract values and unification as the greatest lower bound.
   F = [paths : set of sequences of feature names (prefix closed, contains <<>>),
        atoms : set of <<path, atom>>,
        same  : set of <<path, path>> (reentrancy: an equivalence on paths, closed under extension)]
   Unify(F, G) is the least such structure containing both: the congruence closure of the two
   reentrancy relations over the union of the paths; it is defined iff no class carries two
   different atoms. *)
EXTENDS Naturals, Sequences, FiniteSets, SequencesExt, TLC
SymR(R) == R \cup { <<p[2], p[1]>> : p \in R }
RECURSIVE TC(_)
TC(R) == LET R3 == R \cup UNION { { <<p[1], q[2]>> : q \in { x \in R : x[1] = p[2] } } : p \in R } IN IF R3 = R THEN R ELSE TC(R3)
Refl(P) == { <<p, p>> : p \in P }
RECURSIVE Close(_,_,_)
Close(P, R, fuel) ==
  LET E == TC(SymR(R) \cup Refl(P))
      add == UNION { { <<r, Append(pq[2], Last(r))>> : r \in { x \in P : x # <<>> /\ Front(x) = pq[1] } } : pq \in E }
      P2 == P \cup { a[2] : a \in add }
      E2 == E \cup add
  IN IF fuel = 0 THEN [paths |-> P, same |-> E, ok |-> FALSE]
     ELSE IF P2 = P /\ E2 \subseteq E THEN [paths |-> P, same |-> E, ok |-> TRUE]
     ELSE Close(P2, E2, fuel - 1)
Unify(F, G) ==
  LET c == Close(F.paths \cup G.paths, F.same \cup G.same, 10)
      at == F.atoms \cup G.atoms
      clash == \E x, y \in at : <<x[1], y[1]>> \in c.same /\ x[2] # y[2]
      atoms == UNION { { <<p, x[2]>> : x \in { y \in at : <<y[1], p>> \in c.same } } : p \in c.paths }
  IN [ok |-> c.ok /\ ~clash, paths |-> c.paths, atoms |-> atoms, same |-> c.same]
Norm(F) == LET c == Close(F.paths, F.same, 10) IN
           [paths |-> c.paths, same |-> c.same,
            atoms |-> UNION { { <<p, x[2]>> : x \in { y \in F.atoms : <<y[1], p>> \in c.same } } : p \in c.paths }]
Subsumes(F, G) == /\ F.paths \subseteq G.paths /\ F.atoms \subseteq Norm(G).atoms /\ Norm(F).same \subseteq Norm(G).same
Fs(j) == [paths |-> ToSet(j.paths), atoms |-> { <<a[1], a[2]>> : a \in ToSet(j.atoms) },
          same |-> { <<s[1], s[2]>> : s \in ToSet(j.same) }]
=============================================================================
