------------------------------- MODULE LL1Sem -------------------------------
(* Textbook FIRST / FOLLOW / Predict / LL(1), as least fixpoints.  "$" is the end marker,
   "eps" the epsilon mark in FIRST sets. *)
EXTENDS CFGSem
\* FIRST of a sequence given FIRST of the variables (without eps) and the nullable set N
RECURSIVE FirstSeq(_,_,_,_)
FirstSeq(G, Fi, N, s) == IF s = <<>> THEN {}
                        ELSE LET h == Head(s) fh == IF IsVar(G, h) THEN Fi[h] ELSE {h}
                             IN IF h \in N THEN fh \cup FirstSeq(G, Fi, N, Tail(s)) ELSE fh
NullSeq(N, s) == \A i \in DOMAIN s : s[i] \in N
RECURSIVE FirstLfp(_,_,_)
FirstLfp(G, N, Fi) == LET F2 == [A \in AllVars(G) |-> Fi[A] \cup UNION { FirstSeq(G, Fi, N, p[2]) : p \in ProdsOf(G, A) }]
                      IN IF F2 = Fi THEN Fi ELSE FirstLfp(G, N, F2)
First(G) == FirstLfp(G, NullVars(G), [A \in AllVars(G) |-> {}])
FirstWithEps(G) == LET Fi == First(G) N == NullVars(G) IN [A \in AllVars(G) |-> Fi[A] \cup (IF A \in N THEN {"eps"} ELSE {})]
Suffix(s, i) == SubSeq(s, i + 1, Len(s))
RECURSIVE FollowLfp(_,_,_,_)
FollowLfp(G, N, Fi, Fo) ==
  LET Fo2 == [B \in AllVars(G) |-> Fo[B] \cup UNION { UNION { FirstSeq(G, Fi, N, Suffix(p[2], i))
                                                              \cup (IF NullSeq(N, Suffix(p[2], i)) THEN Fo[p[1]] ELSE {})
                                                            : i \in { k \in DOMAIN p[2] : p[2][k] = B } } : p \in G.prods }]
  IN IF Fo2 = Fo THEN Fo ELSE FollowLfp(G, N, Fi, Fo2)
Follow(G) == FollowLfp(G, NullVars(G), First(G), [A \in AllVars(G) |-> IF A = G.start THEN {"$"} ELSE {}])
Predict(G, p) == LET N == NullVars(G) IN FirstSeq(G, First(G), N, p[2]) \cup (IF NullSeq(N, p[2]) THEN Follow(G)[p[1]] ELSE {})
IsLL1(G) == \A p, q \in G.prods : (p # q /\ p[1] = q[1]) => Predict(G, p) \cap Predict(G, q) = {}
=============================================================================
