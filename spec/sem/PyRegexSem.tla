------------------------------- MODULE PyRegexSem -------------------------------
EXTENDS Naturals, Sequences, FiniteSets, TLC
CONSTANTS Sigma,   \* set of 1-character strings the test strings are built from
          L
Trunc(X) == { w \in X : Len(w) <= L }
Cat(X, Y) == Trunc({ u \o v : u \in X, v \in Y })
RECURSIVE StarFix(_,_)
StarFix(X, Acc) == LET N == Acc \cup Cat(Acc, X) IN IF N = Acc THEN Acc ELSE StarFix(X, N)
Star(X) == StarFix(X, {""})
RECURSIVE Pow(_,_)
Pow(X, n) == IF n = 0 THEN {""} ELSE Cat(X, Pow(X, n - 1))
Digits == {"0","1","2","3","4","5","6","7","8","9"}
Lower == {"a","b","c","d","e","f","g","h","i","j","k","l","m","n","o","p","q","r","s","t","u","v","w","x","y","z"}
Order == <<" ","$","*","+",",","-",".","/","0","1","2","3","4","5","6","7","8","9","[","]","a","b","c","d">>   \* enough of ASCII order for the ranges used
Idx(c) == CHOOSE i \in DOMAIN Order : Order[i] = c
Range(lo, hi) == { Order[i] : i \in Idx(lo)..Idx(hi) }
ShortSet(k) == CASE k = "d" -> Digits [] k = "s" -> {" "} [] k = "w" -> Digits \cup Lower \cup {"_"}
\* set items: [k |-> "c", c |-> ch] | [k |-> "r", lo, hi] | [k |-> "s", s |-> "d"|"s"|"w"]
ItemChars(it) == CASE it.k \in {"c", "raw"} -> {it.c} [] it.k = "r" -> Range(it.lo, it.hi) [] it.k = "s" -> ShortSet(it.s)
ItemText(it) == CASE it.k = "c" -> (IF it.c \in {"]", "\\", "^", "-"} THEN "\\" \o it.c ELSE it.c)
                  [] it.k = "raw" -> it.c
                  [] it.k = "r" -> it.lo \o "-" \o it.hi
                  [] it.k = "s" -> "\\" \o it.s
RECURSIVE JoinItems(_)
JoinItems(s) == IF s = <<>> THEN "" ELSE ItemText(Head(s)) \o JoinItems(Tail(s))
Meta == {".", "^", "$", "*", "+", "?", "{", "}", "[", "]", "\\", "|", "(", ")"}
RECURSIVE Den(_), Render(_)
IsAtom(a) == a.t \in {"lit", "dot", "set", "short"}
Wrap(a) == IF IsAtom(a) THEN Render(a) ELSE "(" \o Render(a) \o ")"
Render(a) == CASE a.t = "lit" -> (IF a.c \in Meta THEN "\\" \o a.c ELSE a.c)
               [] a.t = "dot" -> "."
               [] a.t = "empty" -> ""
               [] a.t = "short" -> "\\" \o a.s
               [] a.t = "set" -> "[" \o (IF a.neg THEN "^" ELSE "") \o JoinItems(a.items) \o "]"
               [] a.t = "star" -> Wrap(a.x) \o "*"
               [] a.t = "plus" -> Wrap(a.x) \o "+"
               [] a.t = "opt" -> Wrap(a.x) \o "?"
               [] a.t = "rep" -> Wrap(a.x) \o "{" \o ToString(a.m) \o "}"
               [] a.t = "rep2" -> Wrap(a.x) \o "{" \o ToString(a.m) \o "," \o ToString(a.n) \o "}"
               [] a.t = "cat" -> (IF a.l.t = "alt" THEN "(" \o Render(a.l) \o ")" ELSE Render(a.l)) \o (IF a.r.t = "alt" THEN "(" \o Render(a.r) \o ")" ELSE Render(a.r))
               [] a.t = "alt" -> Render(a.l) \o "|" \o Render(a.r)
Den(a) == CASE a.t = "lit" -> {a.c} \cap Sigma
            [] a.t = "dot" -> Sigma
            [] a.t = "empty" -> {""}
            [] a.t = "short" -> ShortSet(a.s) \cap Sigma
            [] a.t = "set" -> LET cs == UNION { ItemChars(a.items[i]) : i \in DOMAIN a.items } IN IF a.neg THEN Sigma \ cs ELSE Sigma \cap cs
            [] a.t = "star" -> Star(Den(a.x))
            [] a.t = "plus" -> Cat(Den(a.x), Star(Den(a.x)))
            [] a.t = "opt" -> Den(a.x) \cup {""}
            [] a.t = "rep" -> Pow(Den(a.x), a.m)
            [] a.t = "rep2" -> UNION { Pow(Den(a.x), k) : k \in a.m..a.n }
            [] a.t = "cat" -> Cat(Den(a.l), Den(a.r))
            [] a.t = "alt" -> Den(a.l) \cup Den(a.r)
=============================================================================
