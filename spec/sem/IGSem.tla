------------------------------- MODULE IGSem -------------------------------
(* Reference semantics of indexed grammars in reduced form (emptiness), independent of Aho's
   marking algorithm.
   G = [start, nts, idx, rules]; rules:
     <<"end", A, a>>       A[s]   -> a
     <<"dup", A, B, C>>    A[s]   -> B[s] C[s]
     <<"push", A, B, f>>   A[s]   -> B[f s]
     <<"pop", f, A, B>>    A[f s] -> B[s]
   For a stack s let P(s) be the set of non-terminals that derive a terminal word with stack s.
   P(f s) depends on s only through P(s): T[<<f, S>>] is the least X with the clauses below
   (end; dup with both sons in X; pop f into S; push g into T[<<g, X>>]).  All needed entries are
   computed jointly as one least fixpoint, explored on demand from the empty stack (key <<"#", {}>>). *)
EXTENDS Naturals, Sequences, FiniteSets, TLC
ToSetI(sq) == { sq[i] : i \in DOMAIN sq }
Get(T, k) == IF k \in DOMAIN T THEN T[k] ELSE {}
Heads(G, T, X, k) ==
  { r[2] : r \in { q \in G.rules : q[1] = "end" } }
  \cup { r[2] : r \in { q \in G.rules : q[1] = "dup" /\ q[3] \in X /\ q[4] \in X } }
  \cup { r[2] : r \in { q \in G.rules : q[1] = "push" /\ q[3] \in Get(T, <<q[4], X>>) } }
  \cup (IF k[1] = "#" THEN {} ELSE { r[3] : r \in { q \in G.rules : q[1] = "pop" /\ q[2] = k[1] /\ q[4] \in k[2] } })
PushIdx(G) == { r[4] : r \in { q \in G.rules : q[1] = "push" } }
LStep(G, T) ==
  LET T1 == [k \in DOMAIN T |-> T[k] \cup Heads(G, T, T[k], k)]
      nk == { <<g, T1[k]>> : k \in DOMAIN T1, g \in PushIdx(G) } \ DOMAIN T1
  IN [k \in DOMAIN T1 \cup nk |-> IF k \in DOMAIN T1 THEN T1[k] ELSE {}]
RECURSIVE LLfp(_,_)
LLfp(G, T) == LET N == LStep(G, T) IN IF N = T THEN T ELSE LLfp(G, N)
Root == <<"#", {}>>
Table(G) == LLfp(G, [k \in {Root} |-> {}])
P0(G) == Table(G)[Root]
NonEmpty(G) == G.start \in P0(G)
NonEmptyAny(G, starts) == starts \cap P0(G) # {}
(* the achievable productive sets (values of P(s) for some stack s) *)
Achievable(G) == LET T == Table(G) IN { T[k] : k \in DOMAIN T }

(* ---- the same notion computed over all of idx x SUBSET nts (tiny grammars only; used for M1) ---- *)
FKeys(G) == G.idx \X (SUBSET G.nts)
FHeads(G, T, X, ctx) ==
  { r[2] : r \in { q \in G.rules : q[1] = "end" } }
  \cup { r[2] : r \in { q \in G.rules : q[1] = "dup" /\ q[3] \in X /\ q[4] \in X } }
  \cup { r[2] : r \in { q \in G.rules : q[1] = "push" /\ q[3] \in T[<<q[4], X>>] } }
  \cup (IF ctx = <<>> THEN {} ELSE { r[3] : r \in { q \in G.rules : q[1] = "pop" /\ q[2] = ctx[1] /\ q[4] \in ctx[2] } })
RECURSIVE FLfp(_,_)
FLfp(G, T) == LET N == [k \in FKeys(G) |-> T[k] \cup FHeads(G, T, T[k], k)] IN IF N = T THEN T ELSE FLfp(G, N)
RECURSIVE FP0(_,_,_)
FP0(G, T, X) == LET N == X \cup FHeads(G, T, X, <<>>) IN IF N = X THEN X ELSE FP0(G, T, N)
NonEmptyFull(G) == G.start \in FP0(G, FLfp(G, [k \in FKeys(G) |-> {}]), {})

(* ---- product with a deterministic, epsilon-free automaton D = [states, start, final, delta] ---- *)
Product(G, D) ==
  LET Q == D.states
      Tr(p, a) == { t[3] : t \in { u \in D.delta : u[1] = p /\ u[2] = a } }
  IN [start |-> "#none", idx |-> G.idx,
      nts |-> { <<p, A, q>> : p \in Q, A \in G.nts, q \in Q },
      rules |-> UNION { CASE r[1] = "end" -> { <<"end", <<p, r[2], q>>, r[3]>> : p \in Q, q \in Q } \cap
                                               { <<"end", <<t[1], r[2], t[3]>>, r[3]>> : t \in { u \in D.delta : u[2] = r[3] } }
                          [] r[1] = "dup" -> { <<"dup", <<p, r[2], q>>, <<p, r[3], m>>, <<m, r[4], q>>>> : p \in Q, m \in Q, q \in Q }
                          [] r[1] = "push" -> { <<"push", <<p, r[2], q>>, <<p, r[3], q>>, r[4]>> : p \in Q, q \in Q }
                          [] r[1] = "pop" -> { <<"pop", r[2], <<p, r[3], q>>, <<p, r[4], q>>>> : p \in Q, q \in Q }
                        : r \in G.rules }]
InterNonEmpty(G, D) == D.start # {} /\ NonEmptyAny(Product(G, D), { <<p, G.start, q>> : p \in D.start, q \in D.final })

Ig(j) == [start |-> j.start, nts |-> ToSetI(j.nts), idx |-> ToSetI(j.idx), rules |-> ToSetI(j.rules)]
=============================================================================
