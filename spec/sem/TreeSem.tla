------------------------------- MODULE TreeSem -------------------------------
(* Parse trees and derivations.  tree = [v |-> symbol, sons |-> <<tree, ...>>]; prods = set of
   <<head, body>>; a symbol is a variable iff it is in the set Vs. *)
EXTENDS Naturals, Sequences, FiniteSets, TLC, SequencesExt
RECURSIVE Yield(_,_)
Yield(Vs, t) == IF Len(t.sons) = 0 THEN (IF t.v \in Vs THEN <<>> ELSE <<t.v>>)
                ELSE FlattenSeq([i \in DOMAIN t.sons |-> Yield(Vs, t.sons[i])])
RECURSIVE NodesOK(_,_,_)
NodesOK(Vs, t, prods) ==
  IF Len(t.sons) = 0 THEN (t.v \in Vs => <<t.v, <<>>>> \in prods)      \* a son-less variable needs A -> epsilon
  ELSE /\ t.v \in Vs
       /\ <<t.v, [i \in DOMAIN t.sons |-> t.sons[i].v]>> \in prods
       /\ \A i \in DOMAIN t.sons : NodesOK(Vs, t.sons[i], prods)
ValidTree(Vs, t, start, prods, w) == t.v = start /\ NodesOK(Vs, t, prods) /\ Yield(Vs, t) = w
VarIdx(Vs, sf) == { i \in DOMAIN sf : sf[i] \in Vs }
StepAt(a, b, i, prods) == \E p \in prods : p[1] = a[i] /\ b = SubSeq(a, 1, i - 1) \o p[2] \o SubSeq(a, i + 1, Len(a))
LStep(Vs, a, b, prods) == LET I == VarIdx(Vs, a) IN I # {} /\ StepAt(a, b, CHOOSE i \in I : \A j \in I : i <= j, prods)
RStep(Vs, a, b, prods) == LET I == VarIdx(Vs, a) IN I # {} /\ StepAt(a, b, CHOOSE i \in I : \A j \in I : i >= j, prods)
IsLeftmost(Vs, d, start, prods, w) == /\ Len(d) >= 1 /\ d[1] = <<start>> /\ d[Len(d)] = w
                                      /\ \A k \in 1..(Len(d) - 1) : LStep(Vs, d[k], d[k + 1], prods)
IsRightmost(Vs, d, start, prods, w) == /\ Len(d) >= 1 /\ d[1] = <<start>> /\ d[Len(d)] = w
                                       /\ \A k \in 1..(Len(d) - 1) : RStep(Vs, d[k], d[k + 1], prods)
=============================================================================
