------------------------------- MODULE RegexSem -------------------------------
(* The documented regular-expression syntax of pyformlang as a grammar over token sequences:
     U ::= C ((| or +) C)*      C ::= K ((. or juxtaposition) K)*      K ::= P *^n
     P ::= symbol | epsilon | $ | ( U )
   A token is "." "|" "+" "*" "(" ")" "epsilon" "$", an escaped operator (backslash + char, denotes
   the symbol made of that char) or any other string (a symbol).  Languages are sets of words
   (sequences of symbol names tagged "s:") truncated at length L. *)
EXTENDS Naturals, Sequences, FiniteSets, TLC
RTrunc(X, L) == { w \in X : Len(w) <= L }
RCat(X, Y, L) == RTrunc({ u \o v : u \in X, v \in Y }, L)
RECURSIVE RStarFix(_,_,_)
RStarFix(X, Acc, L) == LET N == Acc \cup RCat(Acc, X, L) IN IF N = Acc THEN Acc ELSE RStarFix(X, N, L)
RStar(X, L) == RStarFix(X, {<<>>}, L)
IsUnionTok(t) == t \in {"|", "+"}
IsOpTok(t) == t \in {"|", "+", ".", "*", "(", ")"}
IsEscaped(t) == Len(t) >= 2 /\ SubSeq(t, 1, 1) = "\\"
SymName(t) == "s:" \o (IF IsEscaped(t) THEN SubSeq(t, 2, Len(t)) ELSE t)
SymLang(t) == IF t \in {"$", "epsilon"} THEN {<<>>} ELSE {<<SymName(t)>>}
Fail == [ok |-> FALSE, lang |-> {}, pos |-> 0]
RECURSIVE PU(_,_,_), PC(_,_,_), PK(_,_,_), PP(_,_,_), PUrest(_,_,_,_), PCrest(_,_,_,_), PKrest(_,_,_,_)
PP(ts, i, L) ==
  IF i > Len(ts) THEN Fail
  ELSE IF ts[i] = "(" THEN
         LET r == PU(ts, i + 1, L) IN
         IF r.ok /\ r.pos <= Len(ts) /\ ts[r.pos] = ")" THEN [ok |-> TRUE, lang |-> r.lang, pos |-> r.pos + 1] ELSE Fail
       ELSE IF ~IsOpTok(ts[i]) THEN [ok |-> TRUE, lang |-> SymLang(ts[i]), pos |-> i + 1] ELSE Fail
PKrest(ts, i, lang, L) == IF i <= Len(ts) /\ ts[i] = "*" THEN PKrest(ts, i + 1, RStar(lang, L), L)
                          ELSE [ok |-> TRUE, lang |-> lang, pos |-> i]
PK(ts, i, L) == LET r == PP(ts, i, L) IN IF r.ok THEN PKrest(ts, r.pos, r.lang, L) ELSE Fail
PCrest(ts, i, lang, L) ==
  IF i > Len(ts) \/ ts[i] = ")" \/ IsUnionTok(ts[i]) THEN [ok |-> TRUE, lang |-> lang, pos |-> i]
  ELSE LET j == IF ts[i] = "." THEN i + 1 ELSE i
           r == PK(ts, j, L)
       IN IF r.ok THEN PCrest(ts, r.pos, RCat(lang, r.lang, L), L) ELSE Fail
PC(ts, i, L) == LET r == PK(ts, i, L) IN IF r.ok THEN PCrest(ts, r.pos, r.lang, L) ELSE Fail
PUrest(ts, i, lang, L) ==
  IF i <= Len(ts) /\ IsUnionTok(ts[i]) THEN
     LET r == PC(ts, i + 1, L) IN IF r.ok THEN PUrest(ts, r.pos, lang \cup r.lang, L) ELSE Fail
  ELSE [ok |-> TRUE, lang |-> lang, pos |-> i]
PU(ts, i, L) == LET r == PC(ts, i, L) IN IF r.ok THEN PUrest(ts, r.pos, r.lang, L) ELSE Fail

(* the documentation does not settle: the empty text, a binary operator without right operand
   ("a|", "a .", "(a|)") and the empty group "()"; the library reads a missing operand as the empty
   language.  Texts containing one of these are classified UNSPEC: either reading is accepted. *)
HasUnspec(ts) ==
  \/ ts = <<>>
  \/ \E i \in DOMAIN ts : /\ ts[i] \in {"|", "+", "."}
                          /\ (i = Len(ts) \/ ts[i + 1] = ")")
  \/ \E i \in DOMAIN ts : ts[i] = "(" /\ i < Len(ts) /\ ts[i + 1] = ")"
Parse(ts, L) ==
  IF HasUnspec(ts) THEN [class |-> "UNSPEC", lang |-> {}]
  ELSE LET r == PU(ts, 1, L) IN
       IF r.ok /\ r.pos = Len(ts) + 1 THEN [class |-> "WF", lang |-> r.lang] ELSE [class |-> "IF", lang |-> {}]
=============================================================================
