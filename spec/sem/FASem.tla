------------------------------- MODULE FASem -------------------------------
(* Reference semantics of finite automata (epsilon-NFA / NFA / DFA), written from the textbook
   definitions and not from pyformlang's algorithms.
   An automaton is a record
      [states, start, final, symbols : sets of names, delta : set of <<p, a, q>>]
   where a = "eps" is the epsilon move.  All names are strings (tagged by the harness). *)
EXTENDS Naturals, Sequences, FiniteSets, SequencesExt, FiniteSetsExt, TLC

EPS == "eps"

Succ(A, S, a) == { t[3] : t \in { u \in A.delta : u[1] \in S /\ u[2] = a } }

RECURSIVE Eclose(_,_)
Eclose(A, S) == LET N == S \cup Succ(A, S, EPS) IN IF N = S THEN S ELSE Eclose(A, N)

Step(A, S, a) == Eclose(A, Succ(A, S, a))

RECURSIVE Run(_,_,_)
Run(A, S, w) == IF w = <<>> THEN S ELSE Run(A, Step(A, S, Head(w)), Tail(w))

Init0(A) == Eclose(A, A.start)

(* accepts(w): some run from a start state spells w (epsilon moves free) and ends in a final state *)
Accepts(A, w) == Run(A, Init0(A), w) \cap A.final # {}

UsedSyms(A) == { t[2] : t \in A.delta } \ {EPS}
Sigma(A) == A.symbols \cup UsedSyms(A)

(* all words over Sig up to length L *)
RECURSIVE WordsUpTo(_,_)
WordsUpTo(Sig, L) == IF L = 0 THEN {<<>>}
                     ELSE LET W == WordsUpTo(Sig, L - 1)
                          IN W \cup { Append(w, a) : w \in { x \in W : Len(x) = L - 1 }, a \in Sig }

Lang(A, Sig, L) == { w \in WordsUpTo(Sig, L) : Accepts(A, w) }

(* ---- exact language comparison: reachability over pairs of epsilon-closed subsets ---- *)
RECURSIVE ReachPairs(_,_,_,_,_)
ReachPairs(A, B, Sig, seen, front) ==
  IF front = {} THEN seen
  ELSE LET nx == { <<Step(A, p[1], a), Step(B, p[2], a)>> : p \in front, a \in Sig } \ seen
       IN ReachPairs(A, B, Sig, seen \cup nx, nx)

Pairs(A, B, Sig) == LET i == <<Init0(A), Init0(B)>> IN ReachPairs(A, B, Sig, {i}, {i})

Fin(A, S) == S \cap A.final # {}

Equiv(A, B) == \A p \in Pairs(A, B, Sigma(A) \cup Sigma(B)) : Fin(A, p[1]) <=> Fin(B, p[2])

(* L(A) is a subset of L(B) *)
Included(A, B) == \A p \in Pairs(A, B, Sigma(A) \cup Sigma(B)) : Fin(A, p[1]) => Fin(B, p[2])

RECURSIVE ReachTriples(_,_,_,_,_,_)
ReachTriples(A, B, R, Sig, seen, front) ==
  IF front = {} THEN seen
  ELSE LET nx == { <<Step(A, p[1], a), Step(B, p[2], a), Step(R, p[3], a)>> : p \in front, a \in Sig } \ seen
       IN ReachTriples(A, B, R, Sig, seen \cup nx, nx)

Triples(A, B, R) == LET i == <<Init0(A), Init0(B), Init0(R)>>
                    IN ReachTriples(A, B, R, Sigma(A) \cup Sigma(B) \cup Sigma(R), {i}, {i})

IsIntersection(A, B, R) == \A p \in Triples(A, B, R) : Fin(R, p[3]) <=> (Fin(A, p[1]) /\ Fin(B, p[2]))
IsUnion(A, B, R)        == \A p \in Triples(A, B, R) : Fin(R, p[3]) <=> (Fin(A, p[1]) \/ Fin(B, p[2]))
IsDifference(A, B, R)   == \A p \in Triples(A, B, R) : Fin(R, p[3]) <=> (Fin(A, p[1]) /\ ~Fin(B, p[2]))

(* complement relative to the automaton's own alphabet SigA: for words over SigA the result accepts
   exactly the words A rejects; a word using a symbol outside SigA is never accepted.
   First component: <<"in", S>> while the word read so far is over SigA, <<"out">> afterwards. *)
RECURSIVE ReachC(_,_,_,_,_,_)
ReachC(A, R, SigA, Sig, seen, front) ==
  IF front = {} THEN seen
  ELSE LET nx == { <<IF p[1][1] = "in" /\ a \in SigA THEN <<"in", Step(A, p[1][2], a)>> ELSE <<"out">>,
                     Step(R, p[2], a)>> : p \in front, a \in Sig } \ seen
       IN ReachC(A, R, SigA, Sig, seen \cup nx, nx)

IsComplement(A, R) ==
  LET SigA == Sigma(A)
      i == << <<"in", Init0(A)>>, Init0(R) >>
  IN \A p \in ReachC(A, R, SigA, SigA \cup Sigma(R), {i}, {i}) :
        Fin(R, p[2]) <=> (p[1][1] = "in" /\ ~Fin(A, p[1][2]))

(* ---- structural predicates ---- *)
IsDet(A) == /\ Cardinality(A.start) <= 1
            /\ \A t \in A.delta : t[2] = EPS => t[1] = t[3]
            /\ \A t, u \in A.delta : (t[1] = u[1] /\ t[2] = u[2]) => t[3] = u[3]

(* the library's DFA class cannot hold an epsilon move at all *)
EpsFree(A) == \A t \in A.delta : t[2] # EPS

Next1(A, S) == { t[3] : t \in { u \in A.delta : u[1] \in S } }
RECURSIVE ReachSt(_,_)
ReachSt(A, S) == LET N == S \cup Next1(A, S) IN IF N = S THEN S ELSE ReachSt(A, N)
Reachable(A) == ReachSt(A, A.start)

Prev1(A, S) == { t[1] : t \in { u \in A.delta : u[3] \in S } }
RECURSIVE CoReachSt(_,_)
CoReachSt(A, S) == LET N == S \cup Prev1(A, S) IN IF N = S THEN S ELSE CoReachSt(A, N)
CoReachable(A) == CoReachSt(A, A.final)

IsEmptyLang(A) == Reachable(A) \cap A.final = {}

(* a cycle (epsilon edges and self loops included) among the states reachable from a start state *)
RECURSIVE StrictReach(_,_,_)
StrictReach(A, S, acc) == LET N == acc \cup Next1(A, S \cup acc) IN IF N = acc THEN acc ELSE StrictReach(A, S, N)
OnCycle(A, q) == q \in StrictReach(A, {q}, {})
Acyclic(A) == \A q \in Reachable(A) : ~OnCycle(A, q)

(* the language is finite: no cycle through a useful (reachable and co-reachable) state;
   epsilon-only cycles do not pump, so a cycle counts only if it contains a consuming edge *)
Useful(A) == Reachable(A) \cap CoReachable(A)
Trim(A) == [A EXCEPT !.delta = { t \in A.delta : t[1] \in Useful(A) /\ t[3] \in Useful(A) }]
IsFiniteLang(A) == LET T == Trim(A) IN \A t \in T.delta : ~(t[2] # EPS /\ (t[1] = t[3] \/ t[1] \in StrictReach(T, {t[3]}, {})))

(* ---- minimality (Myhill-Nerode) for a deterministic, epsilon-free automaton ---- *)
Tgt(D, q, a) == LET T == { t[3] : t \in { u \in D.delta : u[1] = q /\ u[2] = a } }
                IN IF T = {} THEN "#dead" ELSE CHOOSE x \in T : TRUE
RECURSIVE Moore(_,_,_)
Moore(D, Sig, E) == LET E2 == { p \in E : \A a \in Sig : <<Tgt(D, p[1], a), Tgt(D, p[2], a)>> \in E }
                    IN IF E2 = E THEN E ELSE Moore(D, Sig, E2)
Nerode(D) == LET Q == D.states \cup {"#dead"}
             IN Moore(D, Sigma(D), { p \in Q \X Q : (p[1] \in D.final) <=> (p[2] \in D.final) })
(* every state reachable, pairwise distinguishable, and none equivalent to the dead state
   (a minimal *partial* DFA has no sink), except the one-state automaton of the empty language *)
AllReachable(D) == D.states \subseteq Reachable(D)
Distinguishable(D) == LET N == Nerode(D) IN \A p, q \in D.states : p # q => <<p, q>> \notin N
NoDeadState(D) == LET N == Nerode(D) IN \A p \in D.states : <<p, "#dead">> \notin N
Reduced(D) == AllReachable(D) /\ Distinguishable(D)

(* isomorphism of two deterministic automata: lock-step walk from the start states is a bijection *)
OutSyms(D, q) == { t[2] : t \in { u \in D.delta : u[1] = q } }
RECURSIVE Walk(_,_,_,_)
Walk(D1, D2, seen, front) ==
  IF front = {} THEN seen
  ELSE LET nx == UNION { IF OutSyms(D1, p[1]) = OutSyms(D2, p[2])
                         THEN { <<Tgt(D1, p[1], a), Tgt(D2, p[2], a)>> : a \in OutSyms(D1, p[1]) } ELSE {}
                         : p \in front } \ seen
       IN Walk(D1, D2, seen \cup nx, nx)
Iso(D1, D2) ==
  IF D1.start = {} \/ D2.start = {} THEN D1.start = D2.start /\ D1.states = {} /\ D2.states = {}
  ELSE LET s == <<CHOOSE x \in D1.start : TRUE, CHOOSE x \in D2.start : TRUE>>
           ps == Walk(D1, D2, {s}, {s})
       IN /\ \A p \in ps : OutSyms(D1, p[1]) = OutSyms(D2, p[2]) /\ ((p[1] \in D1.final) <=> (p[2] \in D2.final))
          /\ \A p, q \in ps : (p[1] = q[1]) <=> (p[2] = q[2])
          /\ { p[1] : p \in ps } = D1.states /\ { p[2] : p \in ps } = D2.states
          /\ Cardinality(D1.delta) = Cardinality(D2.delta)

(* ---- reference constructions (used as oracles through Equiv) ---- *)
RevA(A) == [states |-> A.states, start |-> A.final, final |-> A.start, symbols |-> A.symbols,
            delta |-> { <<t[3], t[2], t[1]>> : t \in A.delta }]
Tag(k, A) == [states |-> { <<k, q>> : q \in A.states }, start |-> { <<k, q>> : q \in A.start },
              final |-> { <<k, q>> : q \in A.final }, symbols |-> A.symbols,
              delta |-> { << <<k, t[1]>>, t[2], <<k, t[3]>> >> : t \in A.delta }]
ConcatA(A, B) == LET X == Tag("1", A) Y == Tag("2", B) IN
   [states |-> X.states \cup Y.states, start |-> X.start, final |-> Y.final, symbols |-> A.symbols \cup B.symbols,
    delta |-> X.delta \cup Y.delta \cup { <<f, EPS, s>> : f \in X.final, s \in Y.start }]
StarA(A) == LET X == Tag("1", A) n == <<"0", "new">> IN
   [states |-> X.states \cup {n}, start |-> {n}, final |-> {n}, symbols |-> A.symbols,
    delta |-> X.delta \cup { <<n, EPS, s>> : s \in X.start } \cup { <<f, EPS, n>> : f \in X.final }]
UnionA(A, B) == LET X == Tag("1", A) Y == Tag("2", B) IN
   [states |-> X.states \cup Y.states, start |-> X.start \cup Y.start, final |-> X.final \cup Y.final,
    symbols |-> A.symbols \cup B.symbols, delta |-> X.delta \cup Y.delta]

(* subset construction, reference version *)
RECURSIVE Subsets(_,_,_,_)
Subsets(A, Sig, seen, front) ==
  IF front = {} THEN seen
  ELSE LET nx == ({ Step(A, S, a) : S \in front, a \in Sig } \ {{}}) \ seen
       IN Subsets(A, Sig, seen \cup nx, nx)
DetA(A) == LET i == Init0(A)
               Sig == Sigma(A)
               SS == Subsets(A, Sig, {i}, {i})
           IN [states |-> SS, start |-> {i}, final |-> { S \in SS : Fin(A, S) }, symbols |-> Sig,
               delta |-> { t \in { <<S, a, Step(A, S, a)>> : S \in SS, a \in Sig } : t[3] # {} }]

(* conversion from the JSON projection written by the harness (arrays -> sets) *)
Aut(j) == [states |-> ToSet(j.states), start |-> ToSet(j.start), final |-> ToSet(j.final),
           symbols |-> ToSet(j.symbols), delta |-> ToSet(j.delta)]
=============================================================================
